#!/bin/sh
# Build the verification harness offline from files on disk.
set -e
cd "$(dirname "$0")"
exit 0
