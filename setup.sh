#!/bin/sh
# Build the verification harnesses offline from files on disk (the checks rebuild them
# incrementally against /repo's working tree every time they run).
set -e
cd "$(dirname "$0")/harness"
export CARGO_NET_OFFLINE=true
cargo build --offline -p mh -p xh 2>&1 | tail -3
