#!/bin/sh
# Build the verification harness offline from files on disk (the checks rebuild it
# incrementally against /repo's working tree every time they run).
set -e
cd "$(dirname "$0")/harness"
export CARGO_NET_OFFLINE=true
cargo build --offline -p mh 2>&1 | tail -3
