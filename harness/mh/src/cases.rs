//! Decision-table cases enumerated by TLC (spec/ManagedBuild.tla, ...) executed on the
//! real code: one case per line, the specification's expected outcome compared with
//! what the code does.

use std::future::Future;
use std::io::BufRead;
use std::sync::Arc;
use std::task::{Context, Poll, Wake, Waker};
use std::time::Duration;

use deadpool::managed::{BuildError, Manager, Metrics, Pool, PoolError, RecycleResult, Timeouts};
use deadpool::Runtime;
use serde_json::{json, Value};

struct Noop;
impl Wake for Noop {
    fn wake(self: Arc<Self>) {}
}

struct M;
impl Manager for M {
    type Type = u8;
    type Error = ();
    async fn create(&self) -> Result<u8, ()> {
        Ok(0)
    }
    async fn recycle(&self, _: &mut u8, _: &Metrics) -> RecycleResult<()> {
        Ok(())
    }
}

fn to_of(s: &str) -> Option<Duration> {
    match s {
        "zero" => Some(Duration::ZERO),
        "finite" => Some(Duration::from_secs(1)),
        _ => None,
    }
}

fn build_case(c: &Value) -> Value {
    let t = Timeouts {
        wait: to_of(c["wait"].as_str().unwrap()),
        create: to_of(c["create"].as_str().unwrap()),
        recycle: to_of(c["recycle"].as_str().unwrap()),
    };
    let mut b = Pool::<M>::builder(M).max_size(1).timeouts(t);
    if c["runtime"].as_bool().unwrap() {
        b = b.runtime(Runtime::Tokio1);
    }
    let r = std::panic::catch_unwind(std::panic::AssertUnwindSafe(|| b.build()));
    let (got_build, got_get) = match r {
        Err(_) => ("panic".to_string(), "-".to_string()),
        Ok(Err(BuildError::NoRuntimeSpecified)) => ("no_runtime".into(), "-".into()),
        Ok(Ok(pool)) => {
            let rt = tokio::runtime::Builder::new_current_thread().enable_time().start_paused(true).build().unwrap();
            let _g = rt.enter();
            let waker = Waker::from(Arc::new(Noop));
            let mut cx = Context::from_waker(&waker);
            let mut f = Box::pin(pool.get());
            let g = match std::panic::catch_unwind(std::panic::AssertUnwindSafe(|| f.as_mut().poll(&mut cx))) {
                Err(_) => "panic".to_string(),
                Ok(Poll::Pending) => "pending".into(),
                Ok(Poll::Ready(Ok(_))) => "ok".into(),
                Ok(Poll::Ready(Err(PoolError::NoRuntimeSpecified))) => "no_runtime".into(),
                Ok(Poll::Ready(Err(e))) => format!("{:?}", e),
            };
            ("ok".into(), g)
        }
    };
    let ok = got_build == c["build"].as_str().unwrap() && got_get == c["get"].as_str().unwrap();
    json!({"case": c, "got": {"build": got_build, "get": got_get}, "ok": ok})
}

pub fn run(kind: &str, file: &str, out: Option<String>) {
    let f = std::io::BufReader::new(std::fs::File::open(file).expect("cases file"));
    let mut results = vec![];
    for l in f.lines() {
        let l = l.unwrap();
        if l.trim().is_empty() {
            continue;
        }
        let c: Value = serde_json::from_str(&l).expect("case json");
        results.push(match kind {
            "build" => build_case(&c),
            _ => panic!("unknown case kind {}", kind),
        });
    }
    let bad: Vec<&Value> = results.iter().filter(|r| !r["ok"].as_bool().unwrap()).collect();
    let summary = json!({"cases": results.len(), "mismatch": bad.len(), "first_mismatches": bad.iter().take(10).collect::<Vec<_>>(),
                         "samples": results.iter().take(3).collect::<Vec<_>>()});
    if let Some(o) = out {
        std::fs::write(o, serde_json::to_string_pretty(&summary).unwrap()).unwrap();
    }
    println!("{}", json!({"cases": results.len(), "mismatch": bad.len()}));
}
