//! Direction A: replay behaviours of the specification (paths through TLC's state
//! graph) on the real pool, comparing the projected state after every step.

use std::collections::BTreeMap;

use serde::{Deserialize, Serialize};
use serde_json::Value;

use crate::obs::{self, Recorder};
use crate::world::*;

#[derive(Clone, Debug, Deserialize)]
pub struct Step<P = Post> {
    pub a: String,
    #[serde(default)]
    pub t: String,
    #[serde(default)]
    pub x: Vec<Value>,
    #[serde(default = "no_post")]
    pub post: Option<std::sync::Arc<P>>,
}
fn no_post<P>() -> Option<std::sync::Arc<P>> {
    None
}
impl<P> Step<P> {
    /// the same step without the model state
    pub fn plain(&self) -> Step<Post> {
        Step { a: self.a.clone(), t: self.t.clone(), x: self.x.clone(), post: None }
    }
}

#[derive(Clone, Debug, Deserialize)]
pub struct Post {
    pub permits: usize,
    pub closed: bool,
    pub users: usize,
    pub size: usize,
    pub creating: usize,
    pub max: usize,
    pub idle: Vec<u32>,
    pub lock: bool,
    pub pc: BTreeMap<String, String>,
    pub cnt: BTreeMap<String, usize>,
    pub susp: BTreeMap<String, bool>,
    pub res: BTreeMap<String, String>,
    pub woken: BTreeMap<String, bool>,
    pub held: BTreeMap<String, Vec<u32>>,
    pub alive: Vec<u32>,
    pub det: Vec<u32>,
    pub ncreate: usize,
    pub gone: bool,
    #[serde(default)]
    pub rc: Vec<usize>,
    #[serde(default)]
    pub obj: BTreeMap<String, u32>,
}

#[derive(Clone, Debug, Deserialize)]
pub struct PathRec<P = Post> {
    pub id: u64,
    pub steps: Vec<Step<P>>,
}

#[derive(Clone, Debug, Serialize, Default)]
pub struct PathResult {
    pub id: u64,
    pub steps: usize,
    pub conform: bool,
    pub hung: bool,
    pub div_step: Option<usize>,
    pub div_action: Option<String>,
    pub div_what: Vec<String>,
    pub skipped: usize,
    /// the code resolved a choice the harness cannot control differently from this path
    /// (allowed by the specification): the rest of the path was not followed
    pub inconclusive: bool,
}

fn is_call_pc(pc: &str) -> Option<CallKind> {
    Some(match pc {
        "pre" => CallKind::Pre,
        "recycle" => CallKind::Recycle,
        "post" => CallKind::Post,
        "create" => CallKind::Create,
        "pcreate" => CallKind::Pcreate,
        "pred" => CallKind::Pred,
        _ => return None,
    })
}

/// Compare the real world with the model state after a step.
pub fn compare(w: &World, p: &Post, acting: Option<usize>) -> Vec<String> {
    let mut d = vec![];
    let s = w.snapshot();
    macro_rules! chk {
        ($name:expr, $a:expr, $b:expr) => {
            if $a != $b {
                d.push(format!("{}: code {:?} model {:?}", $name, $a, $b));
            }
        };
    }
    chk!("pool_gone", s.pool_gone, p.gone);
    if !s.pool_gone && !p.gone {
        chk!("permits", s.permits, p.permits);
        chk!("closed", s.closed, p.closed);
        chk!("users", s.users, p.users);
        chk!("lock_held", s.slots.is_none(), p.lock);
        if let Some((size, creating, max, idle)) = &s.slots {
            chk!("size", *size, p.size);
            chk!("creating", *creating, p.creating);
            chk!("max_size", *max, p.max);
            chk!("idle", idle, &p.idle);
        }
    }
    for (ix, name) in w.cfg.tasks.iter().enumerate() {
        let pc = p.pc.get(name).map(|s| s.as_str()).unwrap_or("idle");
        let susp = *p.susp.get(name).unwrap_or(&false);
        let cnt = *p.cnt.get(name).unwrap_or(&0);
        let expect: String;
        let got: String;
        match &w.ts[ix] {
            TState::Idle => got = "idle".into(),
            TState::AtPoint(s) => got = s.to_string(),
            TState::AtCall { kind, idx, .. } => got = format!("{}[{}]", kind.name(), idx),
            TState::Pending { gate: None } => got = "g_wait".into(),
            TState::Pending { gate: Some((k, i)) } => got = format!("{}[{}]~", k.name(), i),
            TState::Hung => got = "HUNG".into(),
        }
        if let Some(CallKind::Pred) = is_call_pc(pc) {
            // retain walk: the model counts positions, the code counts calls; compare the object instead
            expect = match &w.ts[ix] {
                TState::AtCall { kind: CallKind::Pred, idx, obj, .. } if p.idle.get(cnt.wrapping_sub(1)) == Some(obj) => format!("pred[{}]", idx),
                _ => format!("pred on object {:?}", p.idle.get(cnt.wrapping_sub(1))),
            };
        } else if let Some(k) = is_call_pc(pc) {
            let i = if matches!(k, CallKind::Create | CallKind::Recycle) { 0 } else { cnt };
            expect = format!("{}[{}]{}", k.name(), i, if susp { "~" } else { "" });
        } else {
            expect = pc.to_string();
        }
        chk!(format!("task {} at", name), got, expect);
        if let TState::AtCall { obj, rc, kind, .. } = &w.ts[ix] {
            if *obj > 0 && *kind != CallKind::Pred {
                if let Some(mo) = p.obj.get(name) {
                    chk!(format!("task {} call object", name), *obj, *mo);
                }
                if let Some(mrc) = p.rc.get((*obj - 1) as usize) {
                    chk!(format!("task {} call sees recycle_count", name), *rc, *mrc);
                }
            }
        }
        if pc == "g_wait" {
            chk!(format!("task {} woken", name), w.woken(ix), *p.woken.get(name).unwrap_or(&false));
        }
        chk!(format!("task {} holds", name), w.held(ix), p.held.get(name).cloned().unwrap_or_default());
        if Some(ix) == acting && pc == "idle" {
            if let Some(r) = &w.last[ix] {
                let want = p.res.get(name).cloned().unwrap_or_else(|| "none".into());
                chk!(format!("task {} result", name), r.spec_name(), want);
                if let OpResult::GetOk { obj, rc, .. } = r {
                    if let Some(mrc) = p.rc.get((*obj - 1) as usize) {
                        chk!(format!("task {} handed-out recycle_count", name), *rc, *mrc);
                    }
                }
            }
        }
    }
    let t = w.truth();
    chk!("alive objects", t.alive(), p.alive);
    let det: Vec<u32> = t.objs.iter().map(|o| o.detach).collect();
    chk!("detach counts", det, p.det);
    chk!("creates in flight", t.creating as usize, p.ncreate);
    if !t.unexpected.is_empty() {
        d.push(format!("unexpected panic: {}", t.unexpected[0]));
    }
    if !t.metric_faults.is_empty() {
        d.push(format!("metrics: {}", t.metric_faults[0]));
    }
    d
}

fn outcome(v: &Value) -> Outcome {
    match v.as_str().unwrap_or("ok") {
        "ok" => Outcome::Ok,
        "err" => Outcome::Err,
        "susp" => Outcome::Susp,
        _ => Outcome::Panic,
    }
}

/// Translate a specification action into the command for the task thread.
pub fn command_of(st: &Step) -> Option<Cmd> {
    let x0u = || st.x.first().and_then(|v| v.as_u64()).unwrap_or(0);
    Some(match st.a.as_str() {
        "StartGet" => {
            let s = |i: usize, d: &str| st.x.get(i).and_then(|v| v.as_str()).unwrap_or(d).to_string();
            Cmd::StartGet(s(0, "bl"), s(1, "none"), s(2, "none"))
        }
        "StartReturn" => Cmd::StartReturn(x0u() as u32),
        "StartTake" => Cmd::StartTake(x0u() as u32),
        "StartResize" => Cmd::StartResize(x0u() as usize),
        "StartClose" => Cmd::StartClose,
        "StartRetain" => Cmd::StartRetain,
        "GUsers" | "GAcq" | "GPop" | "CSize" | "CUnres" | "UDrop" | "GExit" | "XUsers" | "RetUsers" | "RetLock"
        | "RetAdd" | "TkUsers" | "TkLock" | "TkAdd" | "RsLock" | "RsForget" | "RsGrow" | "ClLock" | "RtStatus" | "RtLock" => {
            Cmd::Go(None)
        }
        "RtWalk" => Cmd::Go(Some(
            st.x.first()
                .and_then(|v| v.as_array())
                .map(|a| a.iter().filter_map(|v| v.as_u64()).map(|v| v as u32).collect())
                .unwrap_or_default(),
        )),
        "RtPred" => Cmd::Outcome(if st.x.first().and_then(|v| v.as_bool()).unwrap_or(true) { Outcome::Ok } else { Outcome::Err }),
        "Tick" => Cmd::Tick,
        "GWaitPoll" => Cmd::Poll,
        "GWaitCancel" | "Cancel" => Cmd::Cancel,
        "GWaitExpire" | "Expire" => Cmd::Expire,
        "Call" => Cmd::Outcome(outcome(st.x.first().unwrap_or(&Value::Null))),
        "Resume" => Cmd::Resume(outcome(st.x.first().unwrap_or(&Value::Null))),
        _ => return None,
    })
}

/// The retain predicate is stateful: it answers by call number.  Turn the set of ids to keep into
/// the answers for the idle queue as it is right now.
pub fn retain_script(w: &World, t: usize, cmd: Cmd) -> Cmd {
    match (&w.ts[t], cmd) {
        (TState::AtPoint("m.retain.lock"), Cmd::Go(Some(keep))) => {
            let ids = w.snapshot().slots.map(|s| s.3).unwrap_or_default();
            Cmd::Go(Some(ids.iter().map(|id| keep.contains(id) as u32).collect()))
        }
        (_, c) => c,
    }
}

/// Can `cmd` be given to a task in state `ts` (lenient mode, after a divergence)?
/// schedule points in front of a segment that takes the slots mutex
pub const LOCK_SITES: [&str; 10] = [
    "m.get.pop",
    "m.create.size",
    "m.create.unreserve",
    "m.unready.drop",
    "m.ret.lock",
    "m.take.lock",
    "m.resize.lock",
    "m.close.lock",
    "m.retain.status",
    "m.retain.lock",
];

pub fn applicable(w: &World, t: usize, cmd: &Cmd) -> bool {
    let lock_sites = LOCK_SITES;
    match (&w.ts[t], cmd) {
        (TState::Idle, Cmd::StartGet(..) | Cmd::StartResize(_) | Cmd::StartClose | Cmd::StartRetain | Cmd::StartStatus) => {
            w.pool().is_some()
        }
        (TState::Idle, Cmd::StartReturn(o) | Cmd::StartTake(o)) => w.held(t).contains(o),
        // (a task that was sent ahead has its Go already: it went through as soon as the mutex was free)
        (TState::AtPoint(site), Cmd::Go(_)) => {
            if w.early[t] {
                w.early_ready(t)
            } else {
                !(w.lock_held() && lock_sites.contains(site))
            }
        }
        (TState::AtCall { .. }, Cmd::Outcome(_)) => true,
        (TState::Pending { gate: Some(_) }, Cmd::Resume(_)) => true,
        (TState::Pending { gate: None }, Cmd::Poll) => true,
        (TState::Pending { .. }, Cmd::Cancel | Cmd::Expire | Cmd::Tick) => true,
        _ => false,
    }
}

pub fn run_path(cfg: &Cfg, path: &PathRec, rec: &mut Recorder) -> PathResult {
    let mut w = World::new(cfg.clone());
    let mut res = PathResult { id: path.id, conform: true, ..Default::default() };
    rec.begin(path.id, &w);
    let mut skip_compare = false;
    for (i, st) in path.steps.iter().enumerate() {
        res.steps = i + 1;
        if st.a == "DropPool" {
            if w.ts.iter().all(|s| *s == TState::Idle) {
                w.drop_pool();
                rec.step(&w, None, st, None);
            } else {
                res.skipped += 1;
            }
        } else {
            let Some(t) = w.task_ix(&st.t) else { continue };
            let Some(cmd) = command_of(st) else { continue };
            if !res.conform && !applicable(&w, t, &cmd) {
                res.skipped += 1;
                continue;
            }
            if res.conform && !applicable(&w, t, &cmd) {
                // the code is not where the model says it is (caught by the previous
                // comparison unless the model itself is wrong)
                res.conform = false;
                res.div_step = Some(i);
                res.div_action = Some(format!("{}({})", st.a, st.t));
                res.div_what = vec![format!("command {:?} not applicable in task state {:?}", cmd, w.ts[t])];
                res.skipped += 1;
                continue;
            }
            // The holder of the slots mutex is about to let go of it and the next step belongs to a task parked
            // in front of a critical section: that task is sent ahead, so that it really WAITS for the mutex
            // (same interleaving for code that blocks there; code that does not block runs too early).
            let mut ahead: Option<usize> = None;
            if res.conform && i + 1 < path.steps.len() && w.lock_held() && st.post.as_ref().map(|p| !p.lock).unwrap_or(false) {
                let nx = &path.steps[i + 1];
                if nx.t != st.t {
                    if let (Some(t2), Some(Cmd::Go(None))) = (w.task_ix(&nx.t), command_of(nx)) {
                        if let TState::AtPoint(site) = w.ts[t2] {
                            // (not retain(): what it finds in the queue is recorded right before it locks)
                            if LOCK_SITES.contains(&site) && site != "m.retain.lock" {
                                w.preissue(t2);
                                ahead = Some(t2);
                            }
                        }
                    }
                }
            }
            let before = w.ts[t].clone();
            w.send(t, cmd);
            if let Some(t2) = ahead {
                w.await_early(t2);
                skip_compare = true;
            }
            rec.step(&w, Some(t), st, Some(&before));
            if w.hung {
                res.hung = true;
                if res.conform {
                    res.conform = false;
                    res.div_step = Some(i);
                    res.div_action = Some(format!("{}({})", st.a, st.t));
                    res.div_what = vec!["task did not reach the next schedule point (hang)".into()];
                }
                break;
            }
        }
        if res.conform && !std::mem::take(&mut skip_compare) {
            if let Some(p) = &st.post {
                let acting = w.task_ix(&st.t);
                let d = compare(&w, p, acting);
                if !d.is_empty() {
                    res.conform = false;
                    res.div_step = Some(i);
                    res.div_action = Some(format!("{}({}{})", st.a, st.t, st.x.iter().map(|v| format!(",{}", v)).collect::<String>()));
                    res.div_what = d;
                }
            }
        }
    }
    if !w.hung {
        obs::drain_and_probe(&mut w, rec);
    }
    rec.end(&w, &res);
    w.shutdown();
    res
}
