//! Direction B for the unmanaged pool: seeded random schedules on the real pool.  Writes (a) a
//! trace in the vocabulary of spec/UnmanagedPool.tla for validation by spec/UnmanagedTrace.tla
//! and (b) the observation log judged by spec/UnmanagedObs.tla.

use std::io::Write;

use rand::rngs::StdRng;
use rand::seq::SliceRandom;
use rand::{Rng, SeedableRng};
use serde::Deserialize;
use serde_json::{json, Value};

use crate::replay::Step;
use crate::ureplay::{applicable, command_of, drain_and_probe, URecorder};
use crate::uworld::*;
use crate::world::TState;

#[derive(Clone, Debug, Deserialize)]
pub struct URandCfg {
    pub cfg: UCfg,
    #[serde(default = "d_modes")]
    pub modes: Vec<String>,
    #[serde(default)]
    pub allow_close: bool,
    #[serde(default = "yes")]
    pub allow_take: bool,
    #[serde(default = "yes")]
    pub allow_remove: bool,
    #[serde(default = "yes")]
    pub allow_add: bool,
    #[serde(default = "yes")]
    pub allow_cancel: bool,
    #[serde(default)]
    pub allow_drop_pool: bool,
    #[serde(default = "d_ops")]
    pub ops: usize,
}
fn d_modes() -> Vec<String> {
    vec!["try".into(), "bl".into()]
}
fn yes() -> bool {
    true
}
fn d_ops() -> usize {
    40
}

fn action_of_site(site: &str) -> &'static str {
    match site {
        "u.get.acquire" => "GAcq",
        "u.get.pop" => "GPop",
        "u.get.closed" => "GClosed",
        "u.take" => "Tk",
        "u.drop.push" => "DPush",
        "u.drop.add" => "DAdd",
        "u.drop.clean" | "u.add.clean" => "DClean",
        "u.add.acquire" => "AAcq",
        "u.add.push" => "APush",
        "u.add.add" => "AAdd",
        "u.close.sem" => "CSem",
        "u.close.size_sem" => "CSsem",
        "u.close.clear" => "CClear",
        _ => "Unknown",
    }
}

fn at_of(ts: &TState) -> String {
    match ts {
        TState::Idle => "idle".into(),
        TState::AtPoint(s) => s.to_string(),
        TState::Pending { .. } => "wait".into(),
        TState::AtCall { .. } => "call".into(),
        TState::Hung => "hung".into(),
    }
}

struct Driver<'a> {
    rc: &'a URandCfg,
    ops_left: usize,
    /// what each task's operation in progress is: ("get" | "add", mode)
    op: Vec<(String, String)>,
}

impl Driver<'_> {
    fn choices(&self, w: &UWorld) -> Vec<(usize, Step, u32)> {
        let mut out: Vec<(usize, Step, u32)> = vec![];
        let st = |a: &str, t: &str, x: Vec<Value>| Step { a: a.into(), t: t.into(), x, post: None };
        let snap = w.snapshot();
        for (t, name) in w.cfg.tasks.iter().enumerate() {
            match &w.ts[t] {
                TState::Idle => {
                    if w.pool().is_some() && self.ops_left > 0 {
                        for m in &self.rc.modes {
                            out.push((t, st("StartGet", name, vec![json!(m), json!(false)]), 6));
                            if self.rc.allow_remove {
                                out.push((t, st("StartGet", name, vec![json!(m), json!(true)]), 2));
                            }
                        }
                        if self.rc.allow_add {
                            for o in w.ext() {
                                out.push((t, st("StartAdd", name, vec![json!(o), json!("try")]), 2));
                                out.push((t, st("StartAdd", name, vec![json!(o), json!("bl")]), 2));
                            }
                        }
                        if self.rc.allow_close {
                            out.push((t, st("StartClose", name, vec![]), 1));
                        }
                    }
                    for o in w.held(t) {
                        out.push((t, st("StartReturn", name, vec![json!(o)]), 8));
                        if self.rc.allow_take && self.ops_left > 0 {
                            out.push((t, st("StartTake", name, vec![json!(o)]), 2));
                        }
                    }
                }
                TState::AtPoint(site) => out.push((t, st(action_of_site(site), name, vec![]), 10)),
                TState::Pending { .. } => {
                    let (op, mode) = &self.op[t];
                    let is_add = op == "add";
                    let closed = if is_add { snap.size_closed } else { snap.closed };
                    if w.woken(t) || closed {
                        out.push((t, st(if is_add { "AWaitPoll" } else { "GWaitPoll" }, name, vec![]), 10));
                    } else {
                        if self.rc.allow_cancel {
                            out.push((t, st(if is_add { "AWaitCancel" } else { "GWaitCancel" }, name, vec![]), 1));
                        }
                        if !is_add && mode == "timed" && w.cfg.has_runtime {
                            out.push((t, st("GWaitExpire", name, vec![]), 2));
                        }
                    }
                }
                _ => {}
            }
        }
        if self.rc.allow_drop_pool && w.pool().is_some() && w.ts.iter().all(|s| *s == TState::Idle) && self.ops_left == 0 {
            out.push((usize::MAX, st("DropPool", "", vec![]), 1));
        }
        out.retain(|(t, s, _)| *t == usize::MAX || command_of(s).map(|c| applicable(w, *t, &c)).unwrap_or(false));
        out
    }
}

fn trace_event(run: u64, seq: usize, w: &UWorld, t: Option<usize>, st: &Step) -> Value {
    let s = w.snapshot();
    let mut at = serde_json::Map::new();
    let mut held = serde_json::Map::new();
    for (i, name) in w.cfg.tasks.iter().enumerate() {
        at.insert(name.clone(), json!(at_of(&w.ts[i])));
        held.insert(name.clone(), json!(w.held(i)));
    }
    let done = t.map(|t| w.ts[t] == TState::Idle).unwrap_or(false) && !s.pool_gone;
    let result = t.and_then(|t| w.last[t].as_ref().map(|r| r.spec_name())).unwrap_or_else(|| "none".into());
    json!({
        "run": run, "seq": seq, "task": if st.t.is_empty() { w.cfg.tasks[0].clone() } else { st.t.clone() }, "act": st.a, "x": st.x,
        "permits": s.permits, "spermits": s.size_permits, "closed": s.closed, "sclosed": s.size_closed,
        "size": s.size, "avail": s.available, "qlen": s.queue.map(|q| q as i64).unwrap_or(-1),
        "at": at, "held": held, "ext": w.ext(), "dead": w.dead(),
        "done": done, "result": result, "gone": s.pool_gone,
    })
}

pub fn run(args: &[String]) {
    let arg = |n: &str| args.iter().position(|a| a == n).and_then(|i| args.get(i + 1).cloned());
    let rc: URandCfg = serde_json::from_str(&std::fs::read_to_string(arg("--cfg").expect("--cfg")).unwrap()).expect("rand cfg");
    let runs: u64 = arg("--runs").and_then(|s| s.parse().ok()).unwrap_or(10);
    let seed: u64 = arg("--seed").and_then(|s| s.parse().ok()).unwrap_or(1);
    let max_steps: usize = arg("--steps").and_then(|s| s.parse().ok()).unwrap_or(400);
    let start: u64 = arg("--start").and_then(|s| s.parse().ok()).unwrap_or(0);
    let mut tf = std::io::BufWriter::new(std::fs::File::create(arg("--trace").expect("--trace")).unwrap());
    let mut of = arg("--obs").map(|p| std::io::BufWriter::new(std::fs::File::create(p).unwrap()));
    let mut total_steps = 0usize;
    let mut hung = 0;
    for run in start..start + runs {
        let mut w = UWorld::new(rc.cfg.clone());
        let mut rec = URecorder::new(of.is_some());
        rec.begin(run, &w);
        let n = w.cfg.tasks.len();
        let mut rng = StdRng::seed_from_u64(seed.wrapping_mul(1_000_003).wrapping_add(run));
        let mut d = Driver { rc: &rc, ops_left: rc.ops, op: vec![("none".into(), "-".into()); n] };
        let mut prio: Vec<u32> = (0..n as u32).collect();
        prio.shuffle(&mut rng);
        writeln!(tf, "{}", json!({"run": run, "seq": 0, "act": "Reset", "task": w.cfg.tasks[0], "x": []})).unwrap();
        let mut seq = 0;
        for _ in 0..max_steps {
            let ch = d.choices(&w);
            if ch.is_empty() {
                break;
            }
            if rng.gen_ratio(1, 12) {
                prio.shuffle(&mut rng);
            }
            let pick = if rng.gen_bool(0.7) {
                let best = ch.iter().map(|(t, _, _)| if *t == usize::MAX { 0 } else { prio[*t] }).max().unwrap();
                let c: Vec<&(usize, Step, u32)> = ch.iter().filter(|(t, _, _)| (if *t == usize::MAX { 0 } else { prio[*t] }) == best).collect();
                (*c.choose_weighted(&mut rng, |x| x.2).unwrap()).clone()
            } else {
                ch.choose_weighted(&mut rng, |x| x.2).unwrap().clone()
            };
            let (t, st, _) = pick;
            seq += 1;
            if t == usize::MAX {
                w.drop_pool();
                rec.step(&w, None, &st, None);
                writeln!(tf, "{}", trace_event(run, seq, &w, None, &st)).unwrap();
                continue;
            }
            if st.a.starts_with("Start") && st.a != "StartReturn" {
                d.ops_left = d.ops_left.saturating_sub(1);
            }
            match st.a.as_str() {
                "StartGet" => d.op[t] = ("get".into(), st.x[0].as_str().unwrap_or("-").into()),
                "StartAdd" => d.op[t] = ("add".into(), st.x[1].as_str().unwrap_or("-").into()),
                _ => {}
            }
            let before = w.ts[t].clone();
            w.send(t, command_of(&st).unwrap());
            rec.step(&w, Some(t), &st, Some(&before));
            writeln!(tf, "{}", trace_event(run, seq, &w, Some(t), &st)).unwrap();
            if w.hung {
                hung += 1;
                break;
            }
        }
        total_steps += seq;
        if !w.hung {
            drain_and_probe(&mut w, &mut rec);
        }
        rec.end(&w);
        if let Some(f) = of.as_mut() {
            for l in &rec.lines {
                writeln!(f, "{}", l).unwrap();
            }
        }
        w.shutdown();
    }
    println!("{}", json!({"runs": runs, "steps": total_steps, "hung": hung}));
    tf.flush().unwrap();
    if let Some(f) = of.as_mut() {
        f.flush().unwrap();
    }
    std::process::exit(0);
}
