#![recursion_limit = "1024"]
mod cases;
mod obs;
mod random;
mod urandom;
mod replay;
mod sw;
mod ureplay;
mod uworld;
mod world;

use std::io::{BufRead, Write};
use std::sync::atomic::{AtomicUsize, Ordering};
use std::sync::{Arc, Mutex};

use serde::de::DeserializeOwned;
use serde_json::json;

fn arg_val(args: &[String], name: &str) -> Option<String> {
    args.iter().position(|a| a == name).and_then(|i| args.get(i + 1).cloned())
}

fn main() {
    let args: Vec<String> = std::env::args().collect();
    world::quiet_panics();
    sw::install_probe_hook();
    match args.get(1).map(|s| s.as_str()) {
        Some("replay") => cmd_replay(&args[2..]),
        Some("random") => random::run(&args[2..]),
        Some("urandom") => urandom::run(&args[2..]),
        Some("cases") => cases::run(&args[2], &args[3], arg_val(&args, "--result")),
        _ => {
            eprintln!("usage: mh replay <paths.jsonl> [--obs FILE] [--result FILE] [--threads N] [--only ID] [--obs-sample N]");
            std::process::exit(2);
        }
    }
}

/// Paths file: header {"cfg": .., "kind": ..}, label table, node table, paths (compact),
/// or one self-contained {"id", "steps"} record per line.
fn load_paths<P: DeserializeOwned>(file: &str, only: Option<u64>) -> (serde_json::Value, Vec<replay::PathRec<P>>) {
    let f = std::io::BufReader::new(std::fs::File::open(file).expect("open paths"));
    let mut lines = f.lines();
    let head: serde_json::Value = serde_json::from_str(&lines.next().expect("header").unwrap()).expect("header json");
    let mut labels: Vec<replay::Step<P>> = vec![];
    let mut nodes: Vec<Arc<P>> = vec![];
    let mut paths: Vec<replay::PathRec<P>> = vec![];
    for l in lines {
        let l = l.unwrap();
        if l.trim().is_empty() {
            continue;
        }
        let v: serde_json::Value = serde_json::from_str(&l).expect("json line");
        if let Some(ls) = v.get("labels") {
            labels = serde_json::from_value(ls.clone()).expect("labels");
        } else if v.get("n").is_some() {
            let p: P = serde_json::from_value(v["post"].clone()).expect("post");
            nodes.push(Arc::new(p));
        } else if let Some(es) = v.get("e") {
            let id = v["id"].as_u64().unwrap();
            if !only.map(|o| o == id).unwrap_or(true) {
                continue;
            }
            let steps = es
                .as_array()
                .unwrap()
                .iter()
                .map(|p| {
                    let li = p[0].as_u64().unwrap() as usize;
                    let ni = p[1].as_u64().unwrap() as usize;
                    let l = &labels[li];
                    replay::Step { a: l.a.clone(), t: l.t.clone(), x: l.x.clone(), post: Some(nodes[ni].clone()) }
                })
                .collect();
            paths.push(replay::PathRec { id, steps });
        } else if v.get("steps").is_some() {
            let p: replay::PathRec<P> = serde_json::from_value(v).expect("path json");
            if only.map(|o| o == p.id).unwrap_or(true) {
                paths.push(p);
            }
        }
    }
    (head, paths)
}

/// run one path; second argument: record observations?
type Runner<P> = Arc<dyn Fn(&replay::PathRec<P>, bool) -> (replay::PathResult, Vec<String>) + Send + Sync>;

fn run_all<P: Send + Sync + 'static>(paths: Vec<replay::PathRec<P>>, run: Runner<P>, args: &[String]) {
    let obs_file = arg_val(args, "--obs");
    let result_file = arg_val(args, "--result");
    let threads: usize = arg_val(args, "--threads").and_then(|s| s.parse().ok()).unwrap_or(8);
    let obs_sample: u64 = arg_val(args, "--obs-sample").and_then(|s| s.parse().ok()).unwrap_or(0);
    // --skip a,b,c: paths known to take the whole process down (the controller found them with --progress)
    let skip: Vec<u64> = arg_val(args, "--skip").map(|s| s.split(',').filter_map(|x| x.parse().ok()).collect()).unwrap_or_default();
    let paths: Vec<_> = paths.into_iter().filter(|p| !skip.contains(&p.id)).collect();
    // --progress FILE: "S id" before a path is executed, "E id" after: what was in flight if the process dies
    let progress: Option<Arc<Mutex<std::fs::File>>> =
        arg_val(args, "--progress").and_then(|f| std::fs::OpenOptions::new().create(true).append(true).open(f).ok()).map(|f| Arc::new(Mutex::new(f)));
    let paths = Arc::new(paths);
    let hangs = Arc::new(AtomicUsize::new(0));
    let next = Arc::new(AtomicUsize::new(0));
    let results = Arc::new(Mutex::new(Vec::new()));
    let obs_out = Arc::new(Mutex::new(Vec::<(u64, Vec<String>)>::new()));
    let t0 = std::time::Instant::now();
    let mut hs = vec![];
    for _ in 0..threads.max(1) {
        let paths = paths.clone();
        let next = next.clone();
        let results = results.clone();
        let obs_out = obs_out.clone();
        let run = run.clone();
        let want_obs = obs_file.is_some();
        let progress = progress.clone();
        let hangs = hangs.clone();
        let mark = move |tag: &str, id: u64| {
            if let Some(f) = &progress {
                use std::io::Write;
                let _ = f.lock().unwrap().write_all(format!("{} {}\n", tag, id).as_bytes());
            }
        };
        hs.push(std::thread::spawn(move || loop {
            let i = next.fetch_add(1, Ordering::SeqCst);
            if i >= paths.len() {
                break;
            }
            // code that blocks where the unchanged code does not costs HANG_TIMEOUT per path: after a few dozen of
            // them the verdict on conformance is clear and the rest of the tour is not executed
            if hangs.load(Ordering::SeqCst) >= 30 {
                continue;
            }
            mark("S", paths[i].id);
            // fast pass without recording; executions that do not conform (and a sample
            // of those that do) are re-executed - the schedule is deterministic - with the
            // observation recorder on
            let (r, _) = run(&paths[i], false);
            let sampled = obs_sample > 0 && (paths[i].id % obs_sample == 0);
            if want_obs && (!r.conform || sampled) {
                let (_, lines) = run(&paths[i], true);
                obs_out.lock().unwrap().push((paths[i].id, lines));
            }
            if r.hung {
                hangs.fetch_add(1, Ordering::SeqCst);
            }
            results.lock().unwrap().push(r);
            mark("E", paths[i].id);
        }));
    }
    for h in hs {
        let _ = h.join();
    }
    let mut results = std::mem::take(&mut *results.lock().unwrap());
    results.sort_by_key(|r| r.id);
    let total = results.len();
    let conform = results.iter().filter(|r| r.conform).count();
    let hung = results.iter().filter(|r| r.hung).count();
    let inconclusive = results.iter().filter(|r| r.inconclusive).count();
    let steps: usize = results.iter().map(|r| r.steps).sum();
    let divs: Vec<_> = results.iter().filter(|r| !r.conform).take(20).collect();
    let summary = json!({
        "paths": total, "not_executed_after_hangs": paths.len() - total, "conform": conform, "nonconform": total - conform, "hung": hung, "steps": steps, "inconclusive": inconclusive,
        "wall_s": t0.elapsed().as_secs_f64(),
        "first_divergences": divs,
        "nonconform_ids": results.iter().filter(|r| !r.conform).map(|r| r.id).collect::<Vec<_>>(),
    });
    if let Some(rf) = result_file {
        std::fs::write(rf, serde_json::to_string_pretty(&summary).unwrap()).unwrap();
    }
    if let Some(of) = obs_file {
        let mut all = std::mem::take(&mut *obs_out.lock().unwrap());
        all.sort_by_key(|x| x.0);
        let mut f = std::io::BufWriter::new(std::fs::File::create(of).unwrap());
        for (_, ls) in all {
            for l in ls {
                writeln!(f, "{}", l).unwrap();
            }
        }
    }
    println!("{}", serde_json::to_string(&json!({"paths": total, "conform": conform, "hung": hung, "steps": steps})).unwrap());
    // threads parked inside abandoned worlds never finish: leave without joining them
    std::process::exit(0);
}

fn cmd_replay(args: &[String]) {
    let file = &args[0];
    let only: Option<u64> = arg_val(args, "--only").and_then(|s| s.parse().ok());
    let head: serde_json::Value = {
        let f = std::io::BufReader::new(std::fs::File::open(file).expect("open paths"));
        serde_json::from_str(&f.lines().next().expect("header").unwrap()).expect("header json")
    };
    match head["kind"].as_str().unwrap_or("managed") {
        "sync" => {
            let (head, paths) = load_paths::<sw::SwPost>(file, only);
            let cfg: sw::SwCfg = serde_json::from_value(head["cfg"].clone()).expect("cfg");
            let run: Runner<sw::SwPost> = Arc::new(move |p, obs| sw::run_path(&cfg, p, obs));
            run_all(paths, run, args)
        }
        "unmanaged" => {
            let (head, paths) = load_paths::<ureplay::UPost>(file, only);
            let cfg: uworld::UCfg = serde_json::from_value(head["cfg"].clone()).expect("cfg");
            let run: Runner<ureplay::UPost> = Arc::new(move |p, obs| {
                let mut rec = ureplay::URecorder::new(obs);
                let r = ureplay::run_path(&cfg, p, &mut rec);
                (r, rec.lines)
            });
            run_all(paths, run, args)
        }
        _ => {
            let (head, paths) = load_paths::<replay::Post>(file, only);
            let cfg: world::Cfg = serde_json::from_value(head["cfg"].clone()).expect("cfg");
            let run: Runner<replay::Post> = Arc::new(move |p, obs| {
                let mut rec = obs::Recorder::new(obs);
                let r = replay::run_path(&cfg, p, &mut rec);
                (r, rec.lines)
            });
            run_all(paths, run, args)
        }
    }
}
