//! Observation log: after every step the harness writes what it can see of the real
//! pool from the outside (its own object registry, the manager / hook call log, the
//! public API, results of operations) as one NDJSON record.  The records carry *facts*
//! only; the property predicates that judge them are TLA+ (spec/ManagedObs.tla).

use std::collections::{BTreeMap, BTreeSet};
use std::future::Future;
use std::sync::Arc;
use std::task::{Context, Poll, Wake, Waker};

use deadpool::managed::Object;
use serde_json::{json, Value};

use crate::replay::{PathResult, Step};
use crate::world::*;

struct Noop;
impl Wake for Noop {
    fn wake(self: Arc<Self>) {}
}

pub struct Recorder {
    pub lines: Vec<String>,
    pub enabled: bool,
    run: u64,
    i: usize,
    // harness-side knowledge about the history of this run
    max: usize,
    resized: bool,
    abandoned: bool,
    usedrt: bool,
    timedout: bool,
    /// per task: object the current call chain works on
    inhand: Vec<u32>,
    /// per task: idle objects rejected (by injected failures) during the current get
    nrej: Vec<usize>,
    /// per task: length of the call log when its retain() started
    retain_from: Vec<usize>,
    close_ret: bool,
    /// per task: the operation in progress
    op: Vec<&'static str>,
    arg: Vec<usize>,
    mode: Vec<String>,
    cto: Vec<String>,
    rto: Vec<String>,
    late: Vec<bool>,
    /// per task: steps (calls) the object in hand has passed in this get
    chain: Vec<Vec<String>>,
    cause: Vec<&'static str>,
    /// objects for which a recycling step failed / timed out / was abandoned
    rejected: BTreeSet<u32>,
    /// reference queue: order in which objects became idle (from return events only)
    refq: Vec<u32>,
    /// what each task held after its previous step / the object it returns while a panic unwinds
    last_held: Vec<Vec<u32>>,
    unw_obj: Vec<u32>,
    calls_seen: usize,
    idle_before_walk: Vec<Vec<u32>>,
    keep: Vec<Vec<u32>>,
    /// single-task differential for abandoned gets: status before, nobody else moved
    solo: Vec<Option<(usize, usize, usize, usize, usize, usize)>>,
}

impl Recorder {
    pub fn new(enabled: bool) -> Self {
        Recorder {
            lines: vec![],
            enabled,
            run: 0,
            i: 0,
            max: 0,
            resized: false,
            abandoned: false,
            usedrt: false,
            timedout: false,
            inhand: vec![],
            nrej: vec![],
            retain_from: vec![],
            close_ret: false,
            op: vec![],
            arg: vec![],
            mode: vec![],
            cto: vec![],
            rto: vec![],
            late: vec![],
            chain: vec![],
            cause: vec![],
            rejected: BTreeSet::new(),
            refq: vec![],
            last_held: vec![],
            unw_obj: vec![],
            calls_seen: 0,
            idle_before_walk: vec![],
            keep: vec![],
            solo: vec![],
        }
    }

    pub fn begin(&mut self, run: u64, w: &World) {
        let n = w.cfg.tasks.len();
        self.run = run;
        self.i = 0;
        self.max = w.cfg.init_max;
        self.resized = false;
        self.abandoned = false;
        self.usedrt = false;
        self.timedout = false;
        self.close_ret = false;
        self.inhand = vec![0; n];
        self.nrej = vec![0; n];
        self.retain_from = vec![0; n];
        self.op = vec!["none"; n];
        self.arg = vec![0; n];
        self.mode = vec![String::new(); n];
        self.cto = vec![String::new(); n];
        self.rto = vec![String::new(); n];
        self.late = vec![false; n];
        self.chain = vec![vec![]; n];
        self.cause = vec!["none"; n];
        self.rejected.clear();
        self.refq.clear();
        self.last_held = vec![vec![]; w.ts.len()];
        self.unw_obj = vec![0; w.ts.len()];
        self.calls_seen = 0;
        self.idle_before_walk = vec![vec![]; n];
        self.keep = vec![vec![]; n];
        self.solo = vec![None; n];
        std::thread::sleep(std::time::Duration::from_micros(200));
        let mut e = self.base(w, "begin", None);
        e["act"] = json!("Build");
        e["bgcalls"] = json!(w.truth().calls.len());
        self.push(e);
    }

    fn push(&mut self, e: Value) {
        if self.enabled {
            self.lines.push(e.to_string());
        }
        self.i += 1;
    }

    /// facts common to every record
    fn base(&mut self, w: &World, kind: &str, t: Option<usize>) -> Value {
        let s = w.snapshot();
        let truth = w.truth();
        let alive = truth.alive();
        let exist = truth.objs.iter().filter(|o| !o.destroyed).count();
        let n = w.cfg.tasks.len();
        let out: usize = (0..n).map(|t| w.held(t).len()).sum();
        let ingets = (0..n).filter(|t| self.op[*t] == "get").count();
        let blocked = (0..n)
            .filter(|t| matches!(w.ts[*t], TState::Pending { gate: None }) && !w.woken(*t) && !s.closed)
            .count();
        let quiescent = (0..n).all(|t| match &w.ts[t] {
            TState::Idle => true,
            TState::Pending { gate: Some(_) } => true,
            TState::Pending { gate: None } => !w.woken(t) && !s.closed,
            _ => false,
        });
        let atrest = w.ts.iter().all(|x| *x == TState::Idle);
        let nosusp = !w.ts.iter().any(|x| matches!(x, TState::Pending { gate: Some(_) }));
        let resizing = (0..n).any(|t| matches!(self.op[t], "resize" | "close"));
        let newcalls = truth.calls.len() - self.calls_seen;
        let orphan_calls = truth.calls[self.calls_seen..].iter().filter(|c| c.by_op == "none").count();
        self.calls_seen = truth.calls.len();
        let (idle, idleids) = match &s.slots {
            Some((_, _, _, ids)) => (ids.len() as i64, ids.clone()),
            None => (-1, vec![]),
        };
        let st = s.status.unwrap_or((0, 0, 0, 0));
        json!({
            "run": self.run, "i": self.i, "k": kind,
            "task": t.map(|t| w.cfg.tasks[t].clone()).unwrap_or_else(|| "-".into()),
            "act": "-", "done": false, "op": "none", "result": "-", "robj": 0, "arg": 0,
            "max": self.max, "resized": self.resized, "abandoned": self.abandoned, "usedrt": self.usedrt, "timedout": self.timedout, "pendwait": false,
            "live": alive.len(), "exist": exist, "creating": truth.creating, "out": out,
            "idle": idle, "idleids": idleids,
            "ingets": ingets, "blocked": blocked,
            "quiescent": quiescent, "atrest": atrest, "nosusp": nosusp, "resizing": resizing,
            "stknown": s.status.is_some(), "st_max": st.0, "st_size": st.1, "st_avail": st.2, "st_wait": st.3,
            "closed": s.closed, "closeret": self.close_ret, "poolgone": s.pool_gone,
            "upanics": truth.unexpected.len(), "mfaults": truth.metric_faults.len(),
            "newcalls": newcalls, "orphancalls": orphan_calls, "bgcalls": 0,
            // event-specific facts (neutral defaults)
            "chain": [], "late": false, "cause": "none", "mode": "-", "rto": "none",
            "rrc": 0, "rho": 0, "rrec": false, "rrejected": false,
            "callk": "-", "callobj": 0, "callrc": 0, "callho": 0, "refqlen": -1, "expectpop": 0,
            "retained": 0, "removed": [], "keep": [], "idlebefore": [], "predcalls": [], "nrej": 0,
            "solo": false, "b_size": 0, "b_avail": 0, "b_wait": 0, "b_max": 0, "b_live": 0, "b_permits": 0,
            "permits": s.permits,
            "probe_got": -1, "probe_extra": "-", "stranded": 0,
            "objs": [],
        })
    }

    /// record one executed step of task `t` (None: DropPool)
    pub fn step(&mut self, w: &World, t: Option<usize>, st: &Step, before: Option<&TState>) {
        let Some(t) = t else {
            let mut e = self.base(w, "step", None);
            e["act"] = json!("DropPool");
            self.push(e);
            return;
        };
        // --- update the harness's history knowledge -------------------------------
        let others_idle = (0..w.ts.len()).all(|u| u == t || w.ts[u] == TState::Idle);
        for u in 0..w.ts.len() {
            if u != t {
                self.solo[u] = None; // somebody else moved
            }
        }
        match st.a.as_str() {
            "StartGet" => {
                self.op[t] = "get";
                self.mode[t] = st.x.first().and_then(|v| v.as_str()).unwrap_or("bl").to_string();
                self.cto[t] = st.x.get(1).and_then(|v| v.as_str()).unwrap_or("none").to_string();
                self.rto[t] = st.x.get(2).and_then(|v| v.as_str()).unwrap_or("none").to_string();
                self.late[t] = self.close_ret;
                self.chain[t].clear();
                self.cause[t] = "none";
                self.nrej[t] = 0;
            }
            "StartReturn" => {
                self.op[t] = "return";
                self.arg[t] = st.x.first().and_then(|v| v.as_u64()).unwrap_or(0) as usize;
            }
            "StartTake" => {
                self.op[t] = "take";
                self.usedrt = true;
                self.arg[t] = st.x.first().and_then(|v| v.as_u64()).unwrap_or(0) as usize;
                let id = self.arg[t] as u32;
                self.refq.retain(|x| *x != id);
            }
            "StartResize" => {
                self.op[t] = "resize";
                self.arg[t] = st.x.first().and_then(|v| v.as_u64()).unwrap_or(0) as usize;
            }
            "StartClose" => self.op[t] = "close",
            "StartRetain" => {
                self.retain_from[t] = w.truth().calls.len();
                self.op[t] = "retain";
                self.usedrt = true;
            }
            "Cancel" | "GWaitCancel" => self.abandoned = true,
            _ => {}
        }
        if let TState::AtPoint("m.ret.users") = &w.ts[t] {
            if self.op[t] != "return" {
                let now = w.held(t);
                if let Some(gone) = self.last_held[t].iter().find(|o| !now.contains(o)) {
                    self.unw_obj[t] = *gone;
                }
            }
        }
        for u in 0..w.ts.len() {
            self.last_held[u] = w.held(u);
        }
        if let Some(TState::AtPoint(site)) = before {
            match *site {
                "m.resize.lock" => {
                    // the step that just ran took the lock and (unless closed) set max_size
                    if !self.close_ret {
                        self.max = self.arg[t];
                        self.resized = true;
                    }
                }
                "m.close.lock" => {
                    self.max = 0;
                    self.resized = true;
                    self.close_ret = true;
                    for u in 0..w.ts.len() {
                        // still waiting for a slot when close() returned
                        if self.op[u] == "get" && matches!(w.ts[u], TState::Pending { gate: None }) {
                            self.late[u] = true;
                        }
                        if self.op[u] == "get"
                            && matches!(w.ts[u], TState::AtPoint("m.get.users") | TState::AtPoint("m.get.acquire"))
                        {
                            self.late[u] = true;
                        }
                    }
                }
                "m.ret.lock" => {
                    // (a return that is part of an unwinding get() has no StartReturn step: which object it is
                    //  was noted when the task arrived at m.ret.users)
                    let id = if self.op[t] == "return" { self.arg[t] as u32 } else { self.unw_obj[t] };
                    // (an over-capacity return parks inside Manager::detach: the pool has let go of the object already)
                    let destroyed = w.truth().objs.get((id as usize).wrapping_sub(1)).map(|o| o.destroyed || o.detaching).unwrap_or(true);
                    if !destroyed {
                        self.refq.push(id);
                    }
                }
                "m.retain.lock" => {}
                _ => {}
            }
        }
        // objects that are gone leave the reference queue
        {
            let truth = w.truth();
            self.refq.retain(|id| {
                let o = &truth.objs[(*id - 1) as usize];
                !o.destroyed && !o.handed_over && !o.detaching
            });
        }
        let mut e = self.base(w, "step", Some(t));
        e["act"] = json!(st.a);
        e["op"] = json!(self.op[t]);
        e["arg"] = json!(self.arg[t]);
        e["mode"] = json!(self.mode[t]);
        e["rto"] = json!(self.rto[t]);
        e["pendwait"] = json!(matches!(w.ts[t], TState::Pending { gate: None }));
        // injected failures
        let failed_call = |b: &TState| -> Option<(CallKind, u32)> {
            match b {
                TState::AtCall { kind, obj, .. } => Some((*kind, *obj)),
                _ => None,
            }
        };
        match st.a.as_str() {
            "Call" | "Resume" => {
                let out = st.x.first().and_then(|v| v.as_str()).unwrap_or("ok");
                if out == "panic" {
                    self.abandoned = true;
                }
                if out == "susp" && w.cfg.has_runtime {
                    if let Some(TState::AtCall { kind, .. }) = before {
                        if *kind == CallKind::Create && self.cto[t] == "zero" {
                            self.cause[t] = "create_timeout";
                            self.timedout = true;
                        }
                        if *kind == CallKind::Recycle && self.rto[t] == "zero" {
                            self.timedout = true;
                            self.chain[t].clear();
                            let o = self.inhand[t];
                            if o > 0 {
                                self.rejected.insert(o);
                                self.nrej[t] += 1;
                            }
                        }
                    }
                }
                let at = match before {
                    Some(TState::AtCall { kind, idx, obj, .. }) => Some((*kind, *idx, *obj)),
                    Some(TState::Pending { gate: Some((k, i)) }) => Some((*k, *i, 0)),
                    _ => None,
                };
                if let Some((kind, idx, _)) = at {
                    if kind == CallKind::Pred {
                        // not part of a get()
                    } else if out == "ok" {
                        let tag = match kind {
                            CallKind::Create | CallKind::Recycle => kind.name().to_string(),
                            _ => format!("{}{}", kind.name(), idx),
                        };
                        self.chain[t].push(tag);
                    } else if out == "err" || out == "panic" {
                        match kind {
                            CallKind::Create => self.cause[t] = if out == "err" { "create_err" } else { "panic" },
                            CallKind::Pcreate => self.cause[t] = if out == "err" { "pcreate_err" } else { "panic" },
                            _ => {
                                if out == "panic" {
                                    self.cause[t] = "panic"
                                }
                            }
                        }
                    }
                }
                let _ = failed_call;
            }
            "Cancel" | "GWaitCancel" => self.cause[t] = "cancel",
            "GWaitExpire" => {
                // tokio's timeout polls the acquire first: a permit (or close) that arrived
                // before this poll wins over the deadline
                if !w.pre_woken && !w.pre_closed {
                    self.cause[t] = "wait_expired"
                }
            }
            "Expire" => {
                self.timedout = true;
                if let Some(TState::Pending { gate: Some((CallKind::Create, _)) }) = before {
                    self.cause[t] = "create_timeout";
                }
            }
            _ => {}
        }
        // a call the task has just entered
        if let TState::AtCall { obj, .. } = &w.ts[t] {
            self.inhand[t] = *obj;
        }
        if let TState::AtCall { kind, idx, obj, rc, .. } = &w.ts[t] {
            e["callk"] = json!(format!("{}{}", kind.name(), if matches!(kind, CallKind::Create | CallKind::Recycle) { String::new() } else { idx.to_string() }));
            e["callobj"] = json!(obj);
            e["callrc"] = json!(rc);
            if *obj > 0 {
                e["callho"] = json!(w.truth().objs[(*obj - 1) as usize].handouts);
            }
            // the first call of a recycle chain reveals which idle object was popped;
            // a create call reveals that the pop found nothing
            let first_of_chain = self.chain[t].is_empty() && matches!(st.a.as_str(), "GPop" | "GWaitPoll" | "GAcq" | "UDrop" | "Call" | "Resume");
            if *kind == CallKind::Create {
                e["refqlen"] = json!(self.refq.len());
            } else if *obj > 0 && first_of_chain && !matches!(kind, CallKind::Pred | CallKind::Detach) {
                // (-1: the reference queue is empty - whatever was popped is an object that should not be idle,
                //  e.g. one that was given up earlier and must have been discarded)
                let expect: i64 = if self.refq.is_empty() {
                    -1
                } else if w.cfg.lifo {
                    *self.refq.last().unwrap() as i64
                } else {
                    self.refq[0] as i64
                };
                e["expectpop"] = json!(expect);
                self.refq.retain(|x| x != obj);
            }
        }
        // remember which object is in hand for rejection bookkeeping
        if matches!(st.a.as_str(), "Call" | "Resume" | "Cancel" | "Expire") {
            let out = st.x.first().and_then(|v| v.as_str()).unwrap_or(if st.a == "Call" || st.a == "Resume" { "ok" } else { "fail" });
            let is_pred = matches!(before, Some(TState::AtCall { kind: CallKind::Pred, .. }));
            if out != "ok" && out != "susp" && !is_pred {
                // the object in hand is given up: whatever comes next starts a new chain
                self.chain[t].clear();
                let objid = match before {
                    Some(TState::AtCall { obj, .. }) => *obj,
                    Some(TState::Pending { gate: Some((k, _)) }) if !matches!(k, CallKind::Create) => self.inhand[t],
                    _ => 0,
                };
                if objid > 0 {
                    self.rejected.insert(objid);
                    self.nrej[t] += 1;
                }
            }
        }
        if let Some(TState::AtPoint("m.retain.lock")) = before {
            // idle list right before the walk
            self.idle_before_walk[t] = w.pre_idle.clone();
            self.keep[t].clear();
        }
        if let Some(TState::AtCall { kind: CallKind::Pred, obj, .. }) = before {
            // the predicate's answer for this object
            let keep = match st.a.as_str() {
                "RtPred" => st.x.first().and_then(|v| v.as_bool()).unwrap_or(true),
                _ => st.x.first().and_then(|v| v.as_str()).unwrap_or("ok") != "err",
            };
            if keep {
                self.keep[t].push(*obj);
            }
        }
        if st.a == "StartGet" && others_idle {
            // status and truth before this get did anything (the start command only runs
            // to the first schedule point)
            let s = w.snapshot();
            if let Some(stt) = s.status {
                self.solo[t] = Some((stt.0, stt.1, stt.2, stt.3, w.truth().alive().len(), s.permits));
            }
        }
        // completion of an operation
        if w.ts[t] == TState::Idle && self.op[t] != "none" {
            e["done"] = json!(true);
            e["resizing"] = json!((0..w.ts.len()).any(|u| u != t && matches!(self.op[u], "resize" | "close")));
            let r = w.last[t].clone().unwrap_or(OpResult::Unit);
            e["result"] = json!(r.spec_name());
            e["late"] = json!(self.late[t]);
            e["cause"] = json!(self.cause[t]);
            e["nrej"] = json!(self.nrej[t]);
            match &r {
                OpResult::GetOk { obj, rc, rec } => {
                    e["robj"] = json!(obj);
                    e["rrc"] = json!(rc);
                    e["rrec"] = json!(rec);
                    e["rho"] = json!(w.truth().objs[(*obj - 1) as usize].handouts);
                    e["rrejected"] = json!(self.rejected.contains(obj));
                    e["chain"] = json!(self.chain[t]);
                }
                OpResult::Retain { retained, removed } => {
                    // the predicate calls of this retain, in call order
                    let truth = w.truth();
                    let from = self.retain_from[t].min(truth.calls.len());
                    let calls: Vec<u32> = truth.calls[from..].iter().filter(|c| c.kind == CallKind::Pred && c.task == t as i32).map(|c| c.obj).collect();
                    drop(truth);
                    e["predcalls"] = json!(calls);
                    e["retained"] = json!(retained);
                    e["removed"] = json!(removed);
                    e["keep"] = json!(self.keep[t]);
                    e["idlebefore"] = json!(self.idle_before_walk[t]);
                    let rm = removed.clone();
                    self.refq.retain(|x| !rm.contains(x));
                }
                _ => {}
            }
            if self.op[t] == "get" {
                let norc = matches!(&r, OpResult::GetErr(v) if v == "no_runtime");
                if let (Some(b), true) = (self.solo[t], norc || matches!(r, OpResult::Cancelled | OpResult::Panicked(_))) {
                    e["solo"] = json!(true);
                    e["b_max"] = json!(b.0);
                    e["b_size"] = json!(b.1);
                    e["b_avail"] = json!(b.2);
                    e["b_wait"] = json!(b.3);
                    e["b_live"] = json!(b.4);
                    e["b_permits"] = json!(b.5);
                }
                self.solo[t] = None;
            }
            self.op[t] = "none";
        }
        self.push(e);
    }

    pub fn drain_step(&mut self, w: &World, t: usize, act: &str, before: &TState, objid: u32) {
        let st = Step {
            a: act.to_string(),
            t: w.cfg.tasks[t].clone(),
            x: if act == "StartReturn" { vec![json!(objid)] } else if act == "Call" || act == "Resume" { vec![json!("ok")] } else { vec![] },
            post: None,
        };
        let n0 = self.lines.len();
        self.step(w, Some(t), &st, Some(before));
        if self.enabled && self.lines.len() > n0 {
            // mark as drain record
            let mut v: Value = serde_json::from_str(&self.lines[n0]).unwrap();
            v["k"] = json!("drain");
            self.lines[n0] = v.to_string();
        }
    }

    pub fn probe(&mut self, w: &World, got: i64, extra: &str, stranded: usize) {
        let mut e = self.base(w, "probe", None);
        e["act"] = json!("Probe");
        e["probe_got"] = json!(got);
        // the probe's objects are checked out too (held by the controller)
        let out = e["out"].as_i64().unwrap_or(0) + got.max(0);
        e["out"] = json!(out);
        e["probe_extra"] = json!(extra);
        e["stranded"] = json!(stranded);
        self.push(e);
    }

    pub fn end(&mut self, w: &World, res: &PathResult) {
        let before = w.truth().calls.len();
        std::thread::sleep(std::time::Duration::from_micros(200));
        let mut e = self.base(w, "end", None);
        e["act"] = json!("End");
        e["bgcalls"] = json!(w.truth().calls.len() - before);
        let truth = w.truth();
        let idle: BTreeSet<u32> = w.snapshot().slots.map(|s| s.3.into_iter().collect()).unwrap_or_default();
        let mut held: BTreeMap<u32, bool> = BTreeMap::new();
        for t in 0..w.cfg.tasks.len() {
            for id in w.held(t) {
                held.insert(id, true);
            }
        }
        let objs: Vec<Value> = truth
            .objs
            .iter()
            .enumerate()
            .map(|(i, o)| {
                let id = i as u32 + 1;
                json!({"id": id, "det": o.detach, "destroyed": o.destroyed, "handed": o.handed_over, "orphan": o.orphan,
                       "idle": idle.contains(&id), "out": held.contains_key(&id), "rejected": self.rejected.contains(&id),
                       "ho": o.handouts})
            })
            .collect();
        e["objs"] = json!(objs);
        e["conform"] = json!(res.conform);
        drop(truth);
        self.push(e);
    }
}

fn cancel_waiter(w: &mut World, rec: &mut Recorder, t: usize) {
    let before = w.ts[t].clone();
    w.send(t, Cmd::Cancel);
    rec.drain_step(w, t, "GWaitCancel", &before, 0);
    // the drop sequence of the abandoned future
    while let TState::AtPoint(_) = w.ts[t] {
        let b = w.ts[t].clone();
        w.send(t, Cmd::Go(None));
        rec.drain_step(w, t, "Go", &b, 0);
    }
}

/// Run every task to completion, return every object, then probe the pool through its
/// public API: it must hand out exactly `max` objects concurrently.
pub fn drain_and_probe(w: &mut World, rec: &mut Recorder) {
    let n = w.cfg.tasks.len();
    w.flush_lazy();
    let mut guard = 0;
    loop {
        guard += 1;
        if guard > 10_000 || w.hung {
            break;
        }
        let mut progressed = false;
        // (the drain is not about interleavings: detach calls in progress are completed at once)
        w.flush_lazy();
        // a task that was sent ahead goes through as soon as the mutex it waits for is free
        for t in 0..n {
            if w.early[t] && !w.early_ready(t) && !w.lock_held() {
                w.await_early(t);
            }
        }
        // the holder of the slots lock goes first
        let mut order: Vec<usize> = (0..n).collect();
        order.sort_by_key(|t| !matches!(w.ts[*t], TState::AtPoint("m.resize.forget") | TState::AtPoint("m.resize.grow")));
        for t in order {
            let before = w.ts[t].clone();
            let (cmd, act, objid) = match &before {
                TState::AtPoint(_) => (Cmd::Go(None), "Go", 0),
                TState::AtCall { .. } => (Cmd::Outcome(Outcome::Ok), "Call", 0),
                TState::Pending { gate: Some(_) } => (Cmd::Resume(Outcome::Ok), "Resume", 0),
                TState::Pending { gate: None } => {
                    if w.woken(t) {
                        (Cmd::Poll, "GWaitPoll", 0)
                    } else {
                        continue;
                    }
                }
                TState::Idle => match w.held(t).first() {
                    Some(id) => (Cmd::StartReturn(*id), "StartReturn", *id),
                    None => continue,
                },
                TState::Hung => continue,
            };
            if !crate::replay::applicable(w, t, &cmd) {
                continue;
            }
            w.send(t, cmd);
            rec.drain_step(w, t, act, &before, objid);
            progressed = true;
            break;
        }
        if !progressed {
            // a task may be waiting for a slot while itself holding objects: give up that
            // wait (a legitimate cancellation) so that its objects can be returned
            let total_held: usize = (0..n).map(|t| w.held(t).len()).sum();
            let blocked_holder = (0..n).find(|t| matches!(w.ts[*t], TState::Pending { gate: None }) && total_held > 0);
            match blocked_holder {
                Some(t) => cancel_waiter(w, rec, t),
                None => break,
            }
        }
    }
    w.flush_lazy();
    if w.hung {
        return;
    }
    // waiters that are still blocked although nothing is checked out any more
    let mut stranded = 0;
    for t in 0..n {
        if matches!(w.ts[t], TState::Pending { gate: None }) {
            stranded += 1;
            cancel_waiter(w, rec, t);
        }
    }
    // probe through the public API on this thread (no schedule hook installed here)
    let Some(pool) = w.pool() else {
        rec.probe(w, -1, "poolgone", stranded);
        return;
    };
    // (a panic of the pool in here - a poisoned slots mutex, say - is data like any other panic)
    let probed = std::panic::catch_unwind(std::panic::AssertUnwindSafe(|| {
        let max = pool.status().max_size;
        let waker = Waker::from(Arc::new(Noop));
        let mut cx = Context::from_waker(&waker);
        let to = timeouts_for("nb", "none", "none");
        let mut got: Vec<Object<Mgr>> = vec![];
        let mut extra = String::from("-");
        let limit = max.max(w.cfg.init_max) + 3;
        for _ in 0..limit {
            let mut f = Box::pin(pool.timeout_get(&to));
            match f.as_mut().poll(&mut cx) {
                Poll::Ready(Ok(o)) => got.push(o),
                Poll::Ready(Err(e)) => {
                    extra = match e {
                        deadpool::managed::PoolError::Timeout(deadpool::managed::TimeoutType::Wait) => "timeout_wait".into(),
                        deadpool::managed::PoolError::Closed => "closed".into(),
                        other => format!("{:?}", other).split('(').next().unwrap_or("other").to_lowercase(),
                    };
                    break;
                }
                Poll::Pending => {
                    extra = "pending".into();
                    break;
                }
            }
        }
        (got, extra)
    }));
    let (got, extra) = match probed {
        Ok(x) => x,
        Err(_) => (vec![], String::from("panicked")),
    };
    let ngot = got.len() as i64;
    rec.probe(w, ngot, &extra, stranded);
    let _ = std::panic::catch_unwind(std::panic::AssertUnwindSafe(move || {
        drop(got);
        drop(pool);
    }));
}
