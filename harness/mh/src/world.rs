//! Deterministic scheduler for the managed pool: one OS thread per model task, exactly
//! one of them runs at a time.  A task thread parks (reports to the controller and waits
//! for its next command) at every schedule point of the code under test
//! (`deadpool::verif::point`), at the entry of every Manager / hook / predicate call, and
//! whenever its `get()` future returns `Pending`.

use std::cell::{Cell, RefCell};
use std::collections::BTreeMap;
use std::future::Future;
use std::panic::{catch_unwind, AssertUnwindSafe};
use std::pin::Pin;
use std::rc::Rc;
use std::sync::atomic::{AtomicBool, Ordering};
use std::sync::mpsc::{channel, Receiver, RecvTimeoutError, Sender};
use std::sync::{Arc, Mutex};
use std::task::{Context, Poll, Wake, Waker};
use std::time::{Duration, Instant};

use deadpool::managed::{
    Hook, HookError, Manager, Metrics, Object, Pool, PoolError, QueueMode, RecycleError,
    RecycleResult, TimeoutType, Timeouts,
};
use deadpool::Runtime;
use serde::{Deserialize, Serialize};

/// a task that neither parks nor finishes within this time is blocked inside the code under test (every
/// segment between two schedule points is a handful of instructions)
pub const HANG_TIMEOUT: Duration = Duration::from_secs(4);

#[derive(Clone, Debug, Deserialize, Serialize)]
pub struct Cfg {
    pub tasks: Vec<String>,
    pub init_max: usize,
    #[serde(default)]
    pub lifo: bool,
    #[serde(default)]
    pub npre: usize,
    #[serde(default)]
    pub npost: usize,
    #[serde(default)]
    pub npc: usize,
    #[serde(default)]
    pub async_pre: Vec<usize>,
    #[serde(default)]
    pub async_post: Vec<usize>,
    #[serde(default)]
    pub async_pc: Vec<usize>,
    #[serde(default = "yes")]
    pub has_runtime: bool,
    /// configure the timeouts on the pool and call get() instead of timeout_get()
    #[serde(default)]
    pub pool_level: bool,
    #[serde(default)]
    pub pool_wait: String,
    #[serde(default)]
    pub pool_cto: String,
    #[serde(default)]
    pub pool_rto: String,
    /// order of the builder calls: 0 = max_size, queue_mode; 1 = queue_mode, max_size;
    /// 2 = config(PoolConfig { queue_mode, .. }), max_size; 3 = max_size, config(PoolConfig { max_size, queue_mode, .. })
    #[serde(default)]
    pub build_order: u8,
    /// a task whose get() panics drops the objects it holds while the panic unwinds (as a panicking tokio
    /// task does): they go back to the pool from inside the unwinding
    #[serde(default)]
    pub unwind_drops: bool,
}
fn yes() -> bool {
    true
}

#[derive(Clone, Copy, Debug, PartialEq, Eq, Serialize, Deserialize)]
#[serde(rename_all = "lowercase")]
pub enum Outcome {
    Ok,
    Err,
    Susp,
    Panic,
}

#[derive(Clone, Copy, Debug, PartialEq, Eq, Serialize, Deserialize)]
#[serde(rename_all = "lowercase")]
pub enum CallKind {
    Create,
    Recycle,
    Pre,
    Post,
    Pcreate,
    Pred,
    Detach,
}
impl CallKind {
    pub fn name(self) -> &'static str {
        match self {
            CallKind::Create => "create",
            CallKind::Recycle => "recycle",
            CallKind::Pre => "pre",
            CallKind::Post => "post",
            CallKind::Pcreate => "pcreate",
            CallKind::Pred => "pred",
            CallKind::Detach => "detach",
        }
    }
}

#[derive(Clone, Debug, PartialEq, Eq)]
pub enum Cmd {
    /// wait mode, create timeout, recycle timeout
    StartGet(String, String, String),
    StartReturn(u32),
    StartTake(u32),
    StartResize(usize),
    StartClose,
    StartRetain,
    StartStatus,
    /// unmanaged: get / remove (mode, remove?)
    UGet(String, bool),
    /// unmanaged: add / try_add (object, mode)
    UAdd(u32, String),
    /// resume from a schedule point; for the retain walk: the predicate's answers (1 = keep) by call number
    Go(Option<Vec<u32>>),
    Outcome(Outcome),
    Resume(Outcome),
    Poll,
    Cancel,
    Expire,
    /// let time pass although no deadline applies, then poll
    Tick,
    Exit,
}

#[derive(Clone, Debug, PartialEq, Eq)]
pub enum OpResult {
    GetOk { obj: u32, rc: usize, rec: bool },
    GetErr(String),
    Cancelled,
    Panicked(String),
    Unit,
    Retain { retained: usize, removed: Vec<u32> },
    Status { max_size: usize, size: usize, available: usize, waiting: usize },
    /// unmanaged results
    UOk(u32),
    UErr(String),
}
impl OpResult {
    /// the name the specification uses for this result (`res[t]`)
    pub fn spec_name(&self) -> String {
        match self {
            OpResult::GetOk { .. } => "ok".into(),
            OpResult::GetErr(v) => v.clone(),
            OpResult::UOk(_) => "ok".into(),
            OpResult::UErr(v) => v.clone(),
            OpResult::Cancelled => "cancelled".into(),
            OpResult::Panicked(m) if m == INJECTED => "panic".into(),
            OpResult::Panicked(_) => "unexpected_panic".into(),
            _ => "none".into(),
        }
    }
}

#[derive(Clone, Debug, PartialEq, Eq)]
pub enum Report {
    AtPoint(&'static str),
    AtCall { kind: CallKind, idx: usize, obj: u32, rc: usize, rec: bool },
    Pending { gate: Option<(CallKind, usize)> },
    Done(OpResult),
}

/// What the controller knows about a task.
#[derive(Clone, Debug, PartialEq, Eq)]
pub enum TState {
    Idle,
    AtPoint(&'static str),
    AtCall { kind: CallKind, idx: usize, obj: u32, rc: usize, rec: bool },
    /// get() future returned Pending: in the wait stage (gate = None) or inside a call
    Pending { gate: Option<(CallKind, usize)> },
    /// the task thread did not report back in time
    Hung,
}

pub const INJECTED: &str = "injected panic";

// ---------------------------------------------------------------------------------
// ground truth

#[derive(Clone, Debug, Default)]
pub struct ObjInfo {
    pub destroyed: bool,
    pub detach: u32,
    pub handed_over: bool,
    /// `Manager::detach` for this object is in progress outside the slots lock (the pool let go of it)
    pub detaching: bool,
    pub orphan: bool,
    pub handouts: u32,
    /// Metrics::recycled of the last hand-out, as ns since the world was created
    pub last_recycled_ns: Option<u64>,
    pub created_ns: Option<u64>,
    pub last_rc: usize,
}

#[derive(Clone, Debug, Serialize)]
pub struct CallRec {
    pub kind: CallKind,
    pub idx: usize,
    pub obj: u32,
    pub task: i32,
    /// operation the calling task was executing ("get", "retain", "return", ... or "none")
    pub by_op: &'static str,
    pub rc: usize,
    pub rec: bool,
}

#[derive(Debug)]
pub struct Truth {
    pub t0: Instant,
    pub objs: Vec<ObjInfo>,
    pub creating: u32,
    pub pool_alive: bool,
    pub calls: Vec<CallRec>,
    pub unexpected: Vec<String>,
    /// metrics anomalies noticed by the harness (created changed, recycled went backwards)
    pub metric_faults: Vec<String>,
}
impl Truth {
    fn new() -> Self {
        Truth {
            t0: Instant::now(),
            objs: vec![],
            creating: 0,
            pool_alive: true,
            calls: vec![],
            unexpected: vec![],
            metric_faults: vec![],
        }
    }
    pub fn info(&mut self, id: u32) -> &mut ObjInfo {
        &mut self.objs[(id - 1) as usize]
    }
    /// objects on the pool's books: created, not destroyed, not handed over
    pub fn alive(&self) -> Vec<u32> {
        self.objs
            .iter()
            .enumerate()
            .filter(|(_, o)| !o.destroyed && !o.handed_over && !o.detaching)
            .map(|(i, _)| i as u32 + 1)
            .collect()
    }
    pub fn ns(&self, i: Instant) -> u64 {
        i.saturating_duration_since(self.t0).as_nanos() as u64
    }
}

pub type TruthRef = Arc<Mutex<Truth>>;

pub struct Obj {
    pub id: u32,
    truth: TruthRef,
}
impl Drop for Obj {
    fn drop(&mut self) {
        let mut t = self.truth.lock().unwrap();
        let alive = t.pool_alive;
        let o = t.info(self.id);
        o.destroyed = true;
        if !alive && !o.handed_over {
            o.orphan = true;
        }
    }
}

#[derive(Debug)]
pub struct MgrErr;

// ---------------------------------------------------------------------------------
// task-side context (thread local)

pub(crate) struct TaskCtx {
    pub(crate) ix: usize,
    pub(crate) cmd_rx: Receiver<Cmd>,
    pub(crate) rep_tx: Sender<(usize, Report)>,
    pub(crate) gate_outcome: Cell<Option<Outcome>>,
    pub(crate) at_gate: Cell<Option<(CallKind, usize)>>,
    pub(crate) keep: RefCell<Option<Vec<u32>>>,
    pub(crate) cur_op: Cell<&'static str>,
    /// asks the real pool whether its slots mutex is free right now (managed harness only)
    pub(crate) lock_free: Option<Box<dyn Fn() -> bool>>,
}

thread_local! {
    pub(crate) static CTX: RefCell<Option<Rc<TaskCtx>>> = const { RefCell::new(None) };
}

fn ctx() -> Option<Rc<TaskCtx>> {
    CTX.with(|c| c.borrow().clone())
}

impl TaskCtx {
    pub(crate) fn report(&self, r: Report) {
        let _ = self.rep_tx.send((self.ix, r));
    }
    pub(crate) fn recv(&self) -> Cmd {
        self.cmd_rx.recv().unwrap_or(Cmd::Exit)
    }
}

/// schedule point callback
pub(crate) fn park_point(site: &'static str) {
    if let Some(c) = ctx() {
        c.report(Report::AtPoint(site));
        match c.recv() {
            Cmd::Go(keep) => {
                if keep.is_some() {
                    *c.keep.borrow_mut() = keep;
                }
            }
            Cmd::Exit => exit_thread(),
            other => panic!("harness bug: command {:?} at point {}", other, site),
        }
    }
}

fn exit_thread() -> ! {
    // the world is being torn down while this thread is parked inside the code under
    // test: never return into it
    loop {
        std::thread::park();
    }
}

/// entry of a manager / hook call: park, get the outcome from the controller
fn park_call(truth: &TruthRef, kind: CallKind, idx: usize, obj: u32, m: Option<&Metrics>) -> Outcome {
    let (rc, rec) = m.map(|m| (m.recycle_count, m.recycled.is_some())).unwrap_or((0, false));
    let c = ctx();
    {
        let mut t = truth.lock().unwrap();
        let rec_ = CallRec {
            kind,
            idx,
            obj,
            task: c.as_ref().map(|c| c.ix as i32).unwrap_or(-1),
            by_op: c.as_ref().map(|c| c.cur_op.get()).unwrap_or("probe"),
            rc,
            rec,
        };
        t.calls.push(rec_);
        if let (Some(m), true) = (m, obj > 0) {
            let cns = t.ns(m.created);
            let o = t.info(obj);
            match o.created_ns {
                None => o.created_ns = Some(cns),
                Some(x) if x != cns => {
                    let msg = format!("created instant of object {} changed", obj);
                    t.metric_faults.push(msg)
                }
                _ => {}
            }
        }
    }
    match c {
        None => Outcome::Ok, // probe phase on the controller thread
        Some(c) => {
            c.report(Report::AtCall { kind, idx, obj, rc, rec });
            match c.recv() {
                Cmd::Outcome(o) => o,
                Cmd::Exit => exit_thread(),
                other => panic!("harness bug: command {:?} at call {:?}", other, kind),
            }
        }
    }
}

/// a call that returned Pending: resolved by `Cmd::Resume`
struct Gate(CallKind, usize);
impl Future for Gate {
    type Output = Outcome;
    fn poll(self: Pin<&mut Self>, _cx: &mut Context<'_>) -> Poll<Outcome> {
        let c = ctx().expect("gate outside task");
        match c.gate_outcome.take() {
            Some(o) => {
                c.at_gate.set(None);
                Poll::Ready(o)
            }
            None => {
                c.at_gate.set(Some((self.0, self.1)));
                Poll::Pending
            }
        }
    }
}

async fn decide(truth: &TruthRef, kind: CallKind, idx: usize, obj: u32, m: Option<&Metrics>) -> Outcome {
    match park_call(truth, kind, idx, obj, m) {
        Outcome::Susp => Gate(kind, idx).await,
        o => o,
    }
}

// ---------------------------------------------------------------------------------
// the scripted manager

pub struct Mgr {
    truth: TruthRef,
}

struct CreatingGuard<'a>(&'a TruthRef);
impl Drop for CreatingGuard<'_> {
    fn drop(&mut self) {
        self.0.lock().unwrap().creating -= 1;
    }
}

impl Manager for Mgr {
    type Type = Obj;
    type Error = MgrErr;

    async fn create(&self) -> Result<Obj, MgrErr> {
        self.truth.lock().unwrap().creating += 1;
        let _g = CreatingGuard(&self.truth);
        match decide(&self.truth, CallKind::Create, 0, 0, None).await {
            Outcome::Ok => {
                let mut t = self.truth.lock().unwrap();
                t.objs.push(ObjInfo::default());
                let id = t.objs.len() as u32;
                Ok(Obj { id, truth: self.truth.clone() })
            }
            Outcome::Err => Err(MgrErr),
            _ => panic!("{}", INJECTED),
        }
    }

    async fn recycle(&self, obj: &mut Obj, m: &Metrics) -> RecycleResult<MgrErr> {
        match decide(&self.truth, CallKind::Recycle, 0, obj.id, Some(m)).await {
            Outcome::Ok => Ok(()),
            Outcome::Err => Err(RecycleError::Backend(MgrErr)),
            _ => panic!("{}", INJECTED),
        }
    }

    fn detach(&self, obj: &mut Obj) {
        let mut t = self.truth.lock().unwrap();
        let c = ctx();
        let rec = CallRec {
            kind: CallKind::Detach,
            idx: 0,
            obj: obj.id,
            task: c.as_ref().map(|c| c.ix as i32).unwrap_or(-1),
            by_op: c.as_ref().map(|c| c.cur_op.get()).unwrap_or("probe"),
            rc: 0,
            rec: false,
        };
        t.calls.push(rec);
        t.info(obj.id).detach += 1;
        drop(t);
        // Manager::detach is user code.  Called while the slots mutex is held nobody can get in the way;
        // called outside of it (take, over-capacity return, rejected idle object) every other thread may
        // run while the call is in progress: a schedule point.  The specification has no step for it (the
        // call touches no state of the pool), so the controller treats the park as a stuttering step.
        if let Some(c) = c {
            if c.lock_free.as_ref().map(|f| f()).unwrap_or(false) {
                // (idx 1: inside get(), completed at once by the controller)
                let eager = if c.cur_op.get() == "get" { 1 } else { 0 };
                c.report(Report::AtCall { kind: CallKind::Detach, idx: eager, obj: obj.id, rc: 0, rec: false });
                match c.recv() {
                    Cmd::Outcome(_) => {}
                    Cmd::Exit => exit_thread(),
                    other => panic!("harness bug: command {:?} inside detach", other),
                }
            }
        }
    }
}

fn hook(truth: TruthRef, kind: CallKind, idx: usize, is_async: bool) -> Hook<Mgr> {
    fn finish(o: Outcome, idx: usize) -> Result<(), HookError<MgrErr>> {
        match o {
            Outcome::Ok => Ok(()),
            Outcome::Err if idx % 2 == 1 => Err(HookError::message("scripted")),
            Outcome::Err => Err(HookError::Backend(MgrErr)),
            _ => panic!("{}", INJECTED),
        }
    }
    if is_async {
        Hook::async_fn(move |obj: &mut Obj, m: &Metrics| {
            let truth = truth.clone();
            let id = obj.id;
            Box::pin(async move { finish(decide(&truth, kind, idx, id, Some(m)).await, idx) })
        })
    } else {
        Hook::sync_fn(move |obj: &mut Obj, m: &Metrics| finish(park_call(&truth, kind, idx, obj.id, Some(m)), idx))
    }
}

pub type MPool = Pool<Mgr>;

// ---------------------------------------------------------------------------------
// task thread

pub(crate) struct FlagWaker(pub(crate) Arc<AtomicBool>);
impl Wake for FlagWaker {
    fn wake(self: Arc<Self>) {
        self.0.store(true, Ordering::SeqCst);
    }
    fn wake_by_ref(self: &Arc<Self>) {
        self.0.store(true, Ordering::SeqCst);
    }
}

fn err_name(e: &PoolError<MgrErr>) -> String {
    match e {
        PoolError::Timeout(TimeoutType::Wait) => "timeout_wait",
        PoolError::Timeout(TimeoutType::Create) => "timeout_create",
        PoolError::Timeout(TimeoutType::Recycle) => "timeout_recycle",
        PoolError::Backend(_) => "backend",
        PoolError::Closed => "closed",
        PoolError::NoRuntimeSpecified => "no_runtime",
        PoolError::PostCreateHook(_) => "post_create_hook",
    }
    .into()
}

pub(crate) fn panic_msg(p: Box<dyn std::any::Any + Send>) -> String {
    if let Some(s) = p.downcast_ref::<&str>() {
        s.to_string()
    } else if let Some(s) = p.downcast_ref::<String>() {
        s.clone()
    } else {
        "non-string panic".into()
    }
}

pub fn timeouts_for(mode: &str, cto: &str, rto: &str) -> Timeouts {
    let fin = Some(Duration::from_secs(1));
    let of = |s: &str| match s {
        "finite" => fin,
        "zero" => Some(Duration::ZERO),
        _ => None,
    };
    Timeouts {
        wait: match mode {
            "nb" => Some(Duration::ZERO),
            "timed" => fin,
            _ => None,
        },
        create: of(cto),
        recycle: of(rto),
    }
}

type GetFut = Pin<Box<dyn Future<Output = Result<Object<Mgr>, PoolError<MgrErr>>>>>;

struct Shared {
    cfg: Cfg,
    truth: TruthRef,
    pool: Mutex<Option<MPool>>,
    woken: Vec<Arc<AtomicBool>>,
    /// objects held by each task
    held: Vec<Mutex<BTreeMap<u32, Object<Mgr>>>>,
}

fn note_handout(truth: &TruthRef, o: &Object<Mgr>) -> (usize, bool) {
    let m = *Object::metrics(o);
    let id = o.id;
    let mut t = truth.lock().unwrap();
    let cns = t.ns(m.created);
    let rns = m.recycled.map(|r| t.ns(r));
    let mut faults = vec![];
    let info = t.info(id);
    info.handouts += 1;
    match info.created_ns {
        None => info.created_ns = Some(cns),
        Some(x) if x != cns => faults.push(format!("created instant of object {} changed", id)),
        _ => {}
    }
    if let (Some(prev), Some(now)) = (info.last_recycled_ns, rns) {
        if now < prev {
            faults.push(format!("recycled instant of object {} moved backwards", id));
        }
    }
    if info.last_recycled_ns.is_some() && rns.is_none() {
        faults.push(format!("recycled instant of object {} disappeared", id));
    }
    if rns.is_some() {
        info.last_recycled_ns = rns;
    }
    info.last_rc = m.recycle_count;
    t.metric_faults.extend(faults);
    (m.recycle_count, m.recycled.is_some())
}

fn task_main(ix: usize, sh: Arc<Shared>, cmd_rx: Receiver<Cmd>, rep_tx: Sender<(usize, Report)>) {
    let c = Rc::new(TaskCtx {
        ix,
        cmd_rx,
        rep_tx,
        gate_outcome: Cell::new(None),
        at_gate: Cell::new(None),
        keep: RefCell::new(None),
        cur_op: Cell::new("none"),
        lock_free: {
            let sh2 = sh.clone();
            Some(Box::new(move || {
                let p = sh2.pool.lock().unwrap().clone();
                p.map(|p| {
                    let s = p.verif_snapshot();
                    s.slots.is_some() && !s.poisoned
                })
                .unwrap_or(false)
            }))
        },
    });
    CTX.with(|x| *x.borrow_mut() = Some(c.clone()));
    deadpool::verif::set_hook(Some(Box::new(park_point)));
    let rt = if sh.cfg.has_runtime {
        Some(
            tokio::runtime::Builder::new_current_thread()
                .enable_time()
                .start_paused(true)
                .build()
                .unwrap(),
        )
    } else {
        None
    };
    let _enter = rt.as_ref().map(|r| r.enter());
    let waker = Waker::from(Arc::new(FlagWaker(sh.woken[ix].clone())));

    let mut fut: Option<GetFut> = None;
    loop {
        let cmd = c.recv();
        match cmd {
            Cmd::Exit => break,
            Cmd::StartGet(mode, cto, rto) => {
                let pool = sh.pool.lock().unwrap().clone();
                let Some(pool) = pool else {
                    c.report(Report::Done(OpResult::Unit));
                    continue;
                };
                c.cur_op.set("get");
                let to = timeouts_for(&mode, &cto, &rto);
                fut = Some(if sh.cfg.pool_level && mode == sh.cfg.pool_wait && cto == sh.cfg.pool_cto && rto == sh.cfg.pool_rto {
                    Box::pin(async move { pool.get().await })
                } else {
                    Box::pin(async move { pool.timeout_get(&to).await })
                });
                drive(&c, &sh, &mut fut, &waker);
            }
            Cmd::Poll => drive(&c, &sh, &mut fut, &waker),
            Cmd::Resume(o) => {
                c.gate_outcome.set(Some(o));
                drive(&c, &sh, &mut fut, &waker);
            }
            Cmd::Expire | Cmd::Tick => {
                if let Some(rt) = rt.as_ref() {
                    rt.block_on(async { tokio::time::advance(Duration::from_secs(2)).await });
                }
                drive(&c, &sh, &mut fut, &waker);
            }
            Cmd::Cancel => {
                let f = fut.take();
                let r = catch_unwind(AssertUnwindSafe(move || drop(f)));
                c.at_gate.set(None);
                c.gate_outcome.set(None);
                c.cur_op.set("none");
                c.report(Report::Done(match r {
                    Ok(()) => OpResult::Cancelled,
                    Err(p) => OpResult::Panicked(panic_msg(p)),
                }));
            }
            Cmd::StartReturn(id) => {
                let o = sh.held[ix].lock().unwrap().remove(&id);
                c.cur_op.set("return");
                let r = catch_unwind(AssertUnwindSafe(move || drop(o)));
                sync_done(&c, r.map(|_| OpResult::Unit));
            }
            Cmd::StartTake(id) => {
                let o = sh.held[ix].lock().unwrap().remove(&id);
                c.cur_op.set("take");
                {
                    let mut t = sh.truth.lock().unwrap();
                    let gone = !t.pool_alive;
                    let o = t.info(id);
                    o.handed_over = true;
                    if gone {
                        o.orphan = true;
                    }
                }
                let r = catch_unwind(AssertUnwindSafe(move || {
                    if let Some(o) = o {
                        let inner = Object::take(o);
                        drop(inner);
                    }
                }));
                sync_done(&c, r.map(|_| OpResult::Unit));
            }
            Cmd::StartResize(n) => {
                let pool = sh.pool.lock().unwrap().clone();
                c.cur_op.set("resize");
                let r = catch_unwind(AssertUnwindSafe(move || {
                    if let Some(p) = pool {
                        p.resize(n)
                    }
                }));
                sync_done(&c, r.map(|_| OpResult::Unit));
            }
            Cmd::StartClose => {
                let pool = sh.pool.lock().unwrap().clone();
                c.cur_op.set("close");
                let r = catch_unwind(AssertUnwindSafe(move || {
                    if let Some(p) = pool {
                        p.close()
                    }
                }));
                sync_done(&c, r.map(|_| OpResult::Unit));
            }
            Cmd::StartStatus => {
                let pool = sh.pool.lock().unwrap().clone();
                c.cur_op.set("status");
                let r = catch_unwind(AssertUnwindSafe(move || match pool {
                    Some(p) => {
                        let s = p.status();
                        OpResult::Status { max_size: s.max_size, size: s.size, available: s.available, waiting: s.waiting }
                    }
                    None => OpResult::Unit,
                }));
                sync_done(&c, r);
            }
            Cmd::StartRetain => {
                let pool = sh.pool.lock().unwrap().clone();
                c.cur_op.set("retain");
                let truth = sh.truth.clone();
                let cc = c.clone();
                let r = catch_unwind(AssertUnwindSafe(move || match pool {
                    Some(p) => {
                        let mut n = 0usize;
                        let res = p.retain(|o: &Obj, m: Metrics| {
                            n += 1;
                            {
                                let mut t = truth.lock().unwrap();
                                let rns = m.recycled.map(|r| t.ns(r));
                                let info = t.info(o.id);
                                if info.handouts > 0 && (info.last_rc != m.recycle_count || info.last_recycled_ns != rns) {
                                    let msg = format!("retain saw other metrics for object {} than Object::metrics reported", o.id);
                                    t.metric_faults.push(msg);
                                }
                            }
                            // the predicate is user code (possibly stateful): every call is a decision of the
                            // environment, taken while the pool's lock is held by this walk
                            let keep = !matches!(park_call(&truth, CallKind::Pred, n, o.id, Some(&m)), Outcome::Err);
                            if !keep {
                                // from here on the object is the caller's (it is in the RetainResult being built)
                                truth.lock().unwrap().info(o.id).handed_over = true;
                            }
                            keep
                        });
                        *cc.keep.borrow_mut() = None;
                        let removed: Vec<u32> = res.removed.iter().map(|o| o.id).collect();
                        {
                            let mut t = truth.lock().unwrap();
                            for id in &removed {
                                t.info(*id).handed_over = true;
                            }
                        }
                        drop(res.removed);
                        OpResult::Retain { retained: res.retained, removed }
                    }
                    None => OpResult::Unit,
                }));
                sync_done(&c, r);
            }
            other => panic!("harness bug: command {:?} for an idle task", other),
        }
    }
    deadpool::verif::set_hook(None);
    CTX.with(|x| *x.borrow_mut() = None);
}

fn sync_done(c: &TaskCtx, r: Result<OpResult, Box<dyn std::any::Any + Send>>) {
    c.cur_op.set("none");
    c.report(Report::Done(match r {
        Ok(x) => x,
        Err(p) => OpResult::Panicked(panic_msg(p)),
    }));
}

/// poll the get() future once and report what happened
/// The caller's stack frame, as far as the pool is concerned: the objects the task holds.  When a panic
/// unwinds it they are dropped one after the other (lowest id first), each going through `Object::drop`.
struct CallerFrame<'a> {
    held: &'a Mutex<BTreeMap<u32, Object<Mgr>>>,
    enabled: bool,
    truth: Option<&'a TruthRef>,
}
impl Drop for CallerFrame<'_> {
    fn drop(&mut self) {
        if self.enabled && std::thread::panicking() {
            loop {
                let next = self.held.lock().unwrap().pop_first();
                match next {
                    // (a panic of the pool in here must not leave this destructor: that would abort the process)
                    Some((_, o)) => {
                        if let Err(p) = catch_unwind(AssertUnwindSafe(move || drop(o))) {
                            let m = panic_msg(p);
                            if m != INJECTED {
                                if let Some(t) = self.truth {
                                    t.lock().unwrap().unexpected.push(m);
                                }
                            }
                        }
                    }
                    None => break,
                }
            }
        }
    }
}

fn drive(c: &TaskCtx, sh: &Shared, fut: &mut Option<GetFut>, waker: &Waker) {
    let Some(f) = fut.as_mut() else {
        c.report(Report::Done(OpResult::Unit));
        return;
    };
    sh.woken[c.ix].store(false, Ordering::SeqCst);
    // a gate that is still pending re-registers itself during this poll
    c.at_gate.set(None);
    let mut cx = Context::from_waker(waker);
    let r = catch_unwind(AssertUnwindSafe(|| {
        // (declared before the poll: dropped after the frames of the poll have been unwound)
        let _frame = CallerFrame { held: &sh.held[c.ix], enabled: sh.cfg.unwind_drops, truth: Some(&sh.truth) };
        f.as_mut().poll(&mut cx)
    }));
    match r {
        Ok(Poll::Pending) => c.report(Report::Pending { gate: c.at_gate.get() }),
        Ok(Poll::Ready(res)) => {
            *fut = None;
            c.cur_op.set("none");
            let out = match res {
                Ok(o) => {
                    let id = o.id;
                    let (rc, rec) = note_handout(&sh.truth, &o);
                    sh.held[c.ix].lock().unwrap().insert(id, o);
                    OpResult::GetOk { obj: id, rc, rec }
                }
                Err(e) => OpResult::GetErr(err_name(&e)),
            };
            c.report(Report::Done(out));
        }
        Err(p) => {
            // the panic unwound through poll(): the future has dropped what it held
            let f = fut.take();
            let _ = catch_unwind(AssertUnwindSafe(move || drop(f)));
            c.at_gate.set(None);
            c.gate_outcome.set(None);
            c.cur_op.set("none");
            c.report(Report::Done(OpResult::Panicked(panic_msg(p))));
        }
    }
}

// ---------------------------------------------------------------------------------
// controller side

pub struct World {
    pub cfg: Cfg,
    sh: Arc<Shared>,
    cmd_tx: Vec<Sender<Cmd>>,
    rep_rx: Receiver<(usize, Report)>,
    pub ts: Vec<TState>,
    pub last: Vec<Option<OpResult>>,
    threads: Vec<Option<std::thread::JoinHandle<()>>>,
    pub hung: bool,
    /// facts captured right before the last command was sent
    pub pre_woken: bool,
    pub pre_closed: bool,
    pub pre_idle: Vec<u32>,
    /// tasks parked inside `Manager::detach` outside the slots lock at the end of a return / take:
    /// shown as idle (the specification has no step for the call), released before their next command
    pub lazy: Vec<bool>,
    /// how many such parks there were
    pub lazy_parks: usize,
    /// tasks whose `Go` was sent ahead of time: they are (supposed to be) blocked on the slots mutex
    pub early: Vec<bool>,
    /// reports that arrived from a task other than the one being waited for
    pending_rep: Vec<Option<Report>>,
    /// early tasks that reported while the lock was still held: they did not wait for it
    pub premature: usize,
}

#[derive(Clone, Debug, Default, PartialEq, Eq, Serialize)]
pub struct Snap {
    pub permits: usize,
    pub closed: bool,
    pub users: usize,
    /// size, creating, max_size, idle ids: None while the slots are locked
    pub slots: Option<(usize, usize, usize, Vec<u32>)>,
    /// Pool::status() (only sampled while the slots are not locked)
    pub status: Option<(usize, usize, usize, usize)>,
    pub pool_gone: bool,
}

impl World {
    pub fn new(cfg: Cfg) -> World {
        let truth: TruthRef = Arc::new(Mutex::new(Truth::new()));
        let qm = if cfg.lifo { QueueMode::Lifo } else { QueueMode::Fifo };
        let b0 = Pool::builder(Mgr { truth: truth.clone() });
        let mut b = match cfg.build_order {
            1 => b0.queue_mode(qm).max_size(cfg.init_max),
            2 => {
                let mut pc = deadpool::managed::PoolConfig::new(cfg.init_max + 7);
                pc.queue_mode = qm;
                b0.config(pc).max_size(cfg.init_max)
            }
            3 => {
                let mut pc = deadpool::managed::PoolConfig::new(cfg.init_max);
                pc.queue_mode = qm;
                b0.max_size(cfg.init_max + 7).config(pc)
            }
            _ => b0.max_size(cfg.init_max).queue_mode(qm),
        };
        if cfg.has_runtime {
            b = b.runtime(Runtime::Tokio1);
        }
        if cfg.pool_level {
            b = b.timeouts(timeouts_for(&cfg.pool_wait, &cfg.pool_cto, &cfg.pool_rto));
        }
        for i in 1..=cfg.npre {
            b = b.pre_recycle(hook(truth.clone(), CallKind::Pre, i, cfg.async_pre.contains(&i)));
        }
        for i in 1..=cfg.npost {
            b = b.post_recycle(hook(truth.clone(), CallKind::Post, i, cfg.async_post.contains(&i)));
        }
        for i in 1..=cfg.npc {
            b = b.post_create(hook(truth.clone(), CallKind::Pcreate, i, cfg.async_pc.contains(&i)));
        }
        let pool: MPool = b.build().expect("build");
        let n = cfg.tasks.len();
        let sh = Arc::new(Shared {
            cfg: cfg.clone(),
            truth,
            pool: Mutex::new(Some(pool)),
            woken: (0..n).map(|_| Arc::new(AtomicBool::new(false))).collect(),
            held: (0..n).map(|_| Mutex::new(BTreeMap::new())).collect(),
        });
        let (rep_tx, rep_rx) = channel();
        let mut cmd_tx = vec![];
        let mut threads = vec![];
        for ix in 0..n {
            let (tx, rx) = channel();
            cmd_tx.push(tx);
            let sh2 = sh.clone();
            let rep = rep_tx.clone();
            threads.push(Some(
                std::thread::Builder::new()
                    .name(format!("task{}", ix))
                    .stack_size(1 << 20)
                    .spawn(move || task_main(ix, sh2, rx, rep))
                    .unwrap(),
            ));
        }
        World { cfg, sh, cmd_tx, rep_rx, ts: vec![TState::Idle; n], last: vec![None; n], threads, hung: false, pre_woken: false, pre_closed: false, pre_idle: vec![], lazy: vec![false; n], lazy_parks: 0, early: vec![false; n], pending_rep: vec![None; n], premature: 0 }
    }

    pub fn task_ix(&self, name: &str) -> Option<usize> {
        self.cfg.tasks.iter().position(|t| t == name)
    }

    /// Send a command to task `t` and wait until it parks again.  Parks inside `Manager::detach` are
    /// stuttering steps: inside a get() the call is completed at once; at the end of a return / take
    /// (or wherever else changed code calls it without the lock) the task stays inside the call, looking
    /// idle, while the other tasks run, and completes it before its own next command.
    pub fn send(&mut self, t: usize, cmd: Cmd) -> TState {
        if self.lazy[t] {
            self.lazy[t] = false;
            let mut st = self.send_raw(t, Cmd::Outcome(Outcome::Ok));
            st = self.settle(t, st);
            if st != TState::Idle {
                // (changed code: the call did not end the operation; the command cannot be given)
                return st;
            }
        }
        let st = self.send_raw(t, cmd);
        self.settle(t, st)
    }

    fn settle(&mut self, t: usize, mut st: TState) -> TState {
        loop {
            match st {
                TState::AtCall { kind: CallKind::Detach, idx, obj, .. } => {
                    if obj > 0 && idx != 1 {
                        self.sh.truth.lock().unwrap().info(obj).detaching = true;
                    }
                    if idx == 1 {
                        st = self.send_raw(t, Cmd::Outcome(Outcome::Ok));
                    } else {
                        self.lazy[t] = true;
                        self.lazy_parks += 1;
                        self.ts[t] = TState::Idle;
                        self.last[t] = Some(OpResult::Unit);
                        return TState::Idle;
                    }
                }
                other => return other,
            }
        }
    }

    /// complete every `Manager::detach` call that is still in progress
    pub fn flush_lazy(&mut self) {
        for _ in 0..8 {
            for t in 0..self.ts.len() {
                if self.lazy[t] {
                    self.lazy[t] = false;
                    let st = self.send_raw(t, Cmd::Outcome(Outcome::Ok));
                    self.settle(t, st);
                }
            }
            if !self.lazy.iter().any(|x| *x) {
                break;
            }
        }
    }

    fn send_raw(&mut self, t: usize, cmd: Cmd) -> TState {
        if self.hung {
            return TState::Hung;
        }
        self.pre_woken = self.woken(t);
        if let Some(p) = self.pool() {
            self.pre_closed = p.is_closed();
            if self.ts[t] == TState::AtPoint("m.retain.lock") {
                let mut ids = vec![];
                p.verif_idle(|o, _| ids.push(o.id));
                self.pre_idle = ids;
            }
        }
        let skip_send = self.early[t] && matches!(cmd, Cmd::Go(_));
        if skip_send {
            // the command is already with the task (it was waiting for the slots mutex)
            self.early[t] = false;
        } else if self.cmd_tx[t].send(cmd).is_err() {
            self.hung = true;
            self.ts[t] = TState::Hung;
            return TState::Hung;
        }
        match self.recv_for(t) {
            Some(r) => {
                let st = match r {
                    Report::AtPoint(s) => TState::AtPoint(s),
                    Report::AtCall { kind, idx, obj, rc, rec } => TState::AtCall { kind, idx, obj, rc, rec },
                    Report::Pending { gate } => TState::Pending { gate },
                    Report::Done(res) => {
                        if let OpResult::Panicked(m) = &res {
                            if m != INJECTED {
                                self.sh.truth.lock().unwrap().unexpected.push(m.clone());
                            }
                        }
                        self.last[t] = Some(res);
                        TState::Idle
                    }
                };
                self.ts[t] = st.clone();
                st
            }
            None => {
                self.hung = true;
                self.ts[t] = TState::Hung;
                TState::Hung
            }
        }
    }

    /// next report of task `t`; reports of other tasks (sent ahead) are kept for later
    fn recv_for(&mut self, t: usize) -> Option<Report> {
        if let Some(r) = self.pending_rep[t].take() {
            return Some(r);
        }
        loop {
            match self.rep_rx.recv_timeout(HANG_TIMEOUT) {
                Ok((ix, r)) if ix == t => return Some(r),
                Ok((ix, r)) => {
                    if self.early[ix] {
                        // it was sent ahead and should still be waiting for the mutex the other task holds
                        self.premature += 1;
                    }
                    self.pending_rep[ix] = Some(r);
                }
                Err(RecvTimeoutError::Timeout) | Err(RecvTimeoutError::Disconnected) => return None,
            }
        }
    }

    /// Send `Go` to a task parked in front of a critical section while another task holds the slots mutex:
    /// the task blocks in `lock()` and goes on as soon as the holder lets go.  (Code that does not wait for
    /// the mutex there reports back at once: `premature`.)
    pub fn preissue(&mut self, t: usize) {
        if self.early[t] || self.hung {
            return;
        }
        if self.cmd_tx[t].send(Cmd::Go(None)).is_ok() {
            self.early[t] = true;
        }
    }

    /// the task that was sent ahead has gone through (its report is waiting to be consumed by its own step)
    pub fn early_ready(&self, t: usize) -> bool {
        self.early[t] && self.pending_rep[t].is_some()
    }

    /// wait until the task that was sent ahead has gone through (its report is kept for its own step)
    pub fn await_early(&mut self, t: usize) {
        if self.early[t] && self.pending_rep[t].is_none() {
            if let Some(r) = self.recv_for(t) {
                self.pending_rep[t] = Some(r);
            } else {
                self.hung = true;
            }
        }
    }

    pub fn woken(&self, t: usize) -> bool {
        self.sh.woken[t].load(Ordering::SeqCst)
    }

    pub fn held(&self, t: usize) -> Vec<u32> {
        self.sh.held[t].lock().unwrap().keys().copied().collect()
    }

    pub fn truth(&self) -> std::sync::MutexGuard<'_, Truth> {
        self.sh.truth.lock().unwrap()
    }

    pub fn pool(&self) -> Option<MPool> {
        self.sh.pool.lock().unwrap().clone()
    }

    /// Drop the harness's handle of the pool (all task threads must be idle: they only
    /// hold clones while an operation is in progress).
    pub fn drop_pool(&mut self) {
        self.flush_lazy();
        let p = self.sh.pool.lock().unwrap().take();
        self.sh.truth.lock().unwrap().pool_alive = false;
        drop(p);
    }

    /// some task is parked while holding the slots mutex.  Asked of the real mutex (try_lock while every
    /// task is parked), not inferred from where the tasks are: code that calls the retain predicate or
    /// sits in a resize loop WITHOUT the lock must be schedulable against everything else.
    pub fn lock_held(&self) -> bool {
        match self.pool() {
            Some(p) => {
                // (a poisoned mutex does not block anybody: every lock().unwrap() panics, which is data)
                let s = p.verif_snapshot();
                s.slots.is_none() && !s.poisoned
            }
            // (the harness gave up its handle: tasks in flight still hold clones)
            None => self.ts.iter().any(|s| {
                matches!(s, TState::AtPoint("m.resize.forget") | TState::AtPoint("m.resize.grow") | TState::AtCall { kind: CallKind::Pred, .. })
            }),
        }
    }

    pub fn snapshot(&self) -> Snap {
        match self.pool() {
            None => Snap { pool_gone: true, ..Default::default() },
            Some(p) => {
                let s = p.verif_snapshot();
                let mut ids = vec![];
                let ok = p.verif_idle(|o, _| ids.push(o.id));
                let slots = match (s.slots, ok) {
                    (Some((size, creating, max, _)), true) => Some((size, creating, max, ids)),
                    _ => None,
                };
                let status = if slots.is_some() {
                    let st = p.status();
                    Some((st.max_size, st.size, st.available, st.waiting))
                } else {
                    None
                };
                Snap { permits: s.permits, closed: s.closed, users: s.users, slots, status, pool_gone: false }
            }
        }
    }

    /// Tear the world down.  Threads that are parked inside the code under test are
    /// abandoned (they never return into it).
    pub fn shutdown(mut self) {
        self.flush_lazy();
        for t in 0..self.cmd_tx.len() {
            let idle = matches!(self.ts[t], TState::Idle);
            let _ = self.cmd_tx[t].send(Cmd::Exit);
            if idle && !self.hung {
                if let Some(h) = self.threads[t].take() {
                    let _ = h.join();
                }
            }
        }
    }
}

pub fn quiet_panics() {
    std::panic::set_hook(Box::new(|info| {
        let msg = if let Some(s) = info.payload().downcast_ref::<&str>() {
            s.to_string()
        } else if let Some(s) = info.payload().downcast_ref::<String>() {
            s.clone()
        } else {
            String::new()
        };
        if msg != INJECTED && std::env::var_os("MH_SHOW_PANICS").is_some() {
            eprintln!("panic: {} at {:?}", msg, info.location());
        }
    }));
}
