//! Direction B: seeded random schedules driven on the real pool.  Writes (a) a trace in
//! the vocabulary of spec/ManagedPool.tla for validation by spec/ManagedTrace.tla and
//! (b) the observation log judged by spec/ManagedObs.tla.

use std::io::Write;

use rand::rngs::StdRng;
use rand::seq::SliceRandom;
use rand::{Rng, SeedableRng};
use serde::Deserialize;
use serde_json::{json, Value};

use crate::obs::{self, Recorder};
use crate::replay::{applicable, command_of, PathResult, Step, LOCK_SITES};
use crate::world::*;

#[derive(Clone, Debug, Deserialize)]
pub struct RandCfg {
    pub cfg: Cfg,
    #[serde(default = "d_modes")]
    pub modes: Vec<String>,
    #[serde(default = "d_none")]
    pub ctos: Vec<String>,
    #[serde(default = "d_none")]
    pub rtos: Vec<String>,
    #[serde(default)]
    pub resize_targets: Vec<usize>,
    #[serde(default)]
    pub allow_close: bool,
    #[serde(default)]
    pub allow_retain: bool,
    #[serde(default)]
    pub allow_take: bool,
    #[serde(default)]
    pub allow_drop_pool: bool,
    #[serde(default = "yes")]
    pub allow_fail: bool,
    #[serde(default = "yes")]
    pub allow_suspend: bool,
    #[serde(default = "yes")]
    pub allow_cancel: bool,
    #[serde(default)]
    pub allow_panic: bool,
    #[serde(default = "d_ops")]
    pub ops: usize,
    #[serde(default = "d_maxobjs")]
    pub max_objs: usize,
}
fn d_modes() -> Vec<String> {
    vec!["nb".into(), "bl".into()]
}
fn d_none() -> Vec<String> {
    vec!["none".into()]
}
fn yes() -> bool {
    true
}
fn d_ops() -> usize {
    40
}
fn d_maxobjs() -> usize {
    30
}

fn action_of_site(site: &str) -> &'static str {
    match site {
        "m.get.users" => "GUsers",
        "m.get.acquire" => "GAcq",
        "m.get.pop" => "GPop",
        "m.create.size" => "CSize",
        "m.create.unreserve" => "CUnres",
        "m.unready.drop" => "UDrop",
        "m.get.exit" => "GExit",
        "m.get.users_dec" => "XUsers",
        "m.ret.users" => "RetUsers",
        "m.ret.lock" => "RetLock",
        "m.ret.add" => "RetAdd",
        "m.take.users" => "TkUsers",
        "m.take.lock" => "TkLock",
        "m.take.add" => "TkAdd",
        "m.resize.lock" => "RsLock",
        "m.resize.forget" => "RsForget",
        "m.resize.grow" => "RsGrow",
        "m.close.lock" => "ClLock",
        "m.retain.status" => "RtStatus",
        "m.retain.lock" => "RtLock",
        _ => "Unknown",
    }
}

fn at_of(ts: &TState) -> (String, bool) {
    match ts {
        TState::Idle => ("idle".into(), false),
        TState::AtPoint(s) => (s.to_string(), false),
        TState::AtCall { kind, .. } => (kind.name().into(), false),
        TState::Pending { gate: Some((k, _)) } => (k.name().into(), true),
        TState::Pending { gate: None } => ("g_wait".into(), false),
        TState::Hung => ("hung".into(), false),
    }
}

fn is_async(cfg: &Cfg, kind: CallKind, idx: usize) -> bool {
    match kind {
        CallKind::Pre => cfg.async_pre.contains(&idx),
        CallKind::Post => cfg.async_post.contains(&idx),
        CallKind::Pcreate => cfg.async_pc.contains(&idx),
        _ => true,
    }
}

struct Driver<'a> {
    rc: &'a RandCfg,
    rng: StdRng,
    ops_left: usize,
    mode: Vec<(String, String, String)>,
    created: usize,
    ticked: Vec<bool>,
    /// the task that was sent ahead (it waits for the slots mutex another task holds) and the step it is in
    ahead: Option<(usize, Step)>,
}

impl Driver<'_> {
    /// all steps the environment may take now, in the vocabulary of the specification
    fn choices(&mut self, w: &World) -> Vec<(usize, Step, u32)> {
        let mut out: Vec<(usize, Step, u32)> = vec![];
        let st = |a: &str, t: &str, x: Vec<Value>| Step { a: a.into(), t: t.into(), x, post: None };
        let closed = w.pool().map(|p| p.is_closed()).unwrap_or(true);
        for (t, name) in w.cfg.tasks.iter().enumerate() {
            if w.early[t] {
                // waiting for the slots mutex (or just through it): nothing to choose
                continue;
            }
            if let TState::AtPoint(site) = &w.ts[t] {
                // in front of a critical section while another task holds the mutex: it may be sent ahead, so that
                // it really waits there (one at a time; not retain(), whose view of the queue is recorded at its lock)
                if self.ahead.is_none() && LOCK_SITES.contains(site) && *site != "m.retain.lock" && w.lock_held() {
                    out.push((t, st("__ahead", name, vec![]), 5));
                    continue;
                }
            }
            match &w.ts[t] {
                TState::Idle => {
                    if w.pool().is_some() && self.ops_left > 0 {
                        for m in &self.rc.modes {
                            for c in &self.rc.ctos {
                                for r in &self.rc.rtos {
                                    out.push((t, st("StartGet", name, vec![json!(m), json!(c), json!(r)]), 6));
                                }
                            }
                        }
                        for n in &self.rc.resize_targets {
                            out.push((t, st("StartResize", name, vec![json!(n)]), 2));
                        }
                        if self.rc.allow_close {
                            out.push((t, st("StartClose", name, vec![]), 1));
                        }
                        if self.rc.allow_retain {
                            out.push((t, st("StartRetain", name, vec![]), 2));
                        }
                    }
                    for o in w.held(t) {
                        out.push((t, st("StartReturn", name, vec![json!(o)]), 8));
                        if self.rc.allow_take && self.ops_left > 0 {
                            out.push((t, st("StartTake", name, vec![json!(o)]), 2));
                        }
                    }
                }
                TState::AtPoint(site) => {
                    let a = action_of_site(site);
                    out.push((t, st(a, name, vec![]), 10));
                }
                TState::AtCall { kind: CallKind::Pred, .. } => {
                    out.push((t, st("RtPred", name, vec![json!(true)]), 6));
                    out.push((t, st("RtPred", name, vec![json!(false)]), 4));
                }
                TState::AtCall { kind, idx, .. } => {
                    out.push((t, st("Call", name, vec![json!("ok")]), 10));
                    if self.rc.allow_fail {
                        out.push((t, st("Call", name, vec![json!("err")]), 3));
                    }
                    if self.rc.allow_panic {
                        out.push((t, st("Call", name, vec![json!("panic")]), 1));
                    }
                    let full = *kind == CallKind::Create && self.created >= self.rc.max_objs;
                    if self.rc.allow_suspend && is_async(&w.cfg, *kind, *idx) && !full {
                        out.push((t, st("Call", name, vec![json!("susp")]), 4));
                    }
                }
                TState::Pending { gate: Some((k, _)) } => {
                    out.push((t, st("Resume", name, vec![json!("ok")]), 8));
                    if self.rc.allow_fail {
                        out.push((t, st("Resume", name, vec![json!("err")]), 2));
                    }
                    if self.rc.allow_panic {
                        out.push((t, st("Resume", name, vec![json!("panic")]), 1));
                    }
                    if self.rc.allow_cancel {
                        out.push((t, st("Cancel", name, vec![]), 2));
                    }
                    let (_, c, r) = &self.mode[t];
                    if w.cfg.has_runtime && ((*k == CallKind::Create && c == "finite") || (*k == CallKind::Recycle && r == "finite")) {
                        out.push((t, st("Expire", name, vec![]), 2));
                    }
                    let no_deadline = match k {
                        CallKind::Create => c == "none",
                        CallKind::Recycle => r == "none",
                        _ => true,
                    };
                    if w.cfg.has_runtime && no_deadline && !self.ticked[t] {
                        out.push((t, st("Tick", name, vec![]), 1));
                    }
                }
                TState::Pending { gate: None } => {
                    if w.woken(t) || closed {
                        out.push((t, st("GWaitPoll", name, vec![]), 10));
                    } else {
                        if self.rc.allow_cancel {
                            out.push((t, st("GWaitCancel", name, vec![]), 1));
                        }
                        if self.mode[t].0 == "timed" && w.cfg.has_runtime {
                            out.push((t, st("GWaitExpire", name, vec![]), 2));
                        }
                        if self.mode[t].0 == "bl" && w.cfg.has_runtime && !self.ticked[t] {
                            out.push((t, st("Tick", name, vec![]), 1));
                        }
                    }
                }
                TState::Hung => {}
            }
        }
        if self.rc.allow_drop_pool && w.pool().is_some() && w.ts.iter().all(|s| *s == TState::Idle) && self.ops_left == 0 {
            out.push((usize::MAX, st("DropPool", "", vec![]), 1));
        }
        out.retain(|(t, s, _)| *t == usize::MAX || s.a == "__ahead" || command_of(s).map(|c| applicable(w, *t, &c)).unwrap_or(false));
        out
    }
}

fn trace_event(run: u64, seq: usize, w: &World, t: Option<usize>, st: &Step) -> Value {
    let s = w.snapshot();
    let mut at = serde_json::Map::new();
    let mut susp = serde_json::Map::new();
    let mut held = serde_json::Map::new();
    for (i, name) in w.cfg.tasks.iter().enumerate() {
        let (a, su) = at_of(&w.ts[i]);
        at.insert(name.clone(), json!(a));
        susp.insert(name.clone(), json!(su));
        held.insert(name.clone(), json!(w.held(i)));
    }
    let done = t.map(|t| w.ts[t] == TState::Idle && !st.a.starts_with("Start")).unwrap_or(false)
        || t.map(|t| w.ts[t] == TState::Idle && st.a.starts_with("Start")).unwrap_or(false);
    let result = t.and_then(|t| w.last[t].as_ref().map(|r| r.spec_name())).unwrap_or_else(|| "none".into());
    let (size, creating, max, idle) = s.slots.clone().unwrap_or((0, 0, 0, vec![]));
    json!({
        "run": run, "seq": seq, "task": if st.t.is_empty() { w.cfg.tasks[0].clone() } else { st.t.clone() }, "act": st.a, "x": st.x,
        "permits": s.permits, "closed": s.closed, "users": s.users, "slots": s.slots.is_some() || s.pool_gone,
        "size": size, "creating": creating, "max": max, "idle": idle,
        "at": at, "susp": susp, "held": held, "alive": w.truth().alive(),
        "done": done && t.is_some() && !s.pool_gone, "result": result, "gone": s.pool_gone, "blind": false,
    })
}

pub fn run(args: &[String]) {
    let arg = |n: &str| args.iter().position(|a| a == n).and_then(|i| args.get(i + 1).cloned());
    let rc: RandCfg = serde_json::from_str(&std::fs::read_to_string(arg("--cfg").expect("--cfg")).unwrap()).expect("rand cfg");
    let runs: u64 = arg("--runs").and_then(|s| s.parse().ok()).unwrap_or(10);
    let seed: u64 = arg("--seed").and_then(|s| s.parse().ok()).unwrap_or(1);
    let max_steps: usize = arg("--steps").and_then(|s| s.parse().ok()).unwrap_or(400);
    let start: u64 = arg("--start").and_then(|s| s.parse().ok()).unwrap_or(0);
    let mut tf = std::io::BufWriter::new(std::fs::File::create(arg("--trace").expect("--trace")).unwrap());
    let mut of = arg("--obs").map(|p| std::io::BufWriter::new(std::fs::File::create(p).unwrap()));
    let mut total_steps = 0usize;
    let mut hung = 0;
    for run in start..start + runs {
        let mut w = World::new(rc.cfg.clone());
        let mut rec = Recorder::new(of.is_some());
        rec.begin(run, &w);
        let n = w.cfg.tasks.len();
        let mut d = Driver { rc: &rc, rng: StdRng::seed_from_u64(seed.wrapping_mul(1_000_003).wrapping_add(run)), ops_left: rc.ops, mode: vec![("bl".into(), "none".into(), "none".into()); n], created: 0, ticked: vec![false; n], ahead: None };
        // PCT-style priorities: a task keeps the processor until a change point
        let mut prio: Vec<u32> = (0..n as u32).collect();
        prio.shuffle(&mut d.rng);
        writeln!(tf, "{}", json!({"run": run, "seq": 0, "act": "Reset", "task": w.cfg.tasks[0], "x": []})).unwrap();
        let mut seq = 0;
        for _ in 0..max_steps {
            let ch = d.choices(&w);
            if ch.is_empty() {
                break;
            }
            if d.rng.gen_ratio(1, 12) {
                prio.shuffle(&mut d.rng);
            }
            // mostly follow the priorities, sometimes pick uniformly among everything enabled
            let pick = if d.rng.gen_bool(0.7) {
                let best = ch.iter().map(|(t, _, _)| if *t == usize::MAX { 0 } else { prio[*t] }).max().unwrap();
                let c: Vec<&(usize, Step, u32)> = ch.iter().filter(|(t, _, _)| (if *t == usize::MAX { 0 } else { prio[*t] }) == best).collect();
                (*c.choose_weighted(&mut d.rng, |x| x.2).unwrap()).clone()
            } else {
                ch.choose_weighted(&mut d.rng, |x| x.2).unwrap().clone()
            };
            let (t, st, _) = pick;
            if st.a == "__ahead" {
                // no event: nothing observable happens, the task blocks in lock()
                if let TState::AtPoint(site) = w.ts[t] {
                    let act = Step { a: action_of_site(site).into(), t: st.t.clone(), x: vec![], post: None };
                    w.preissue(t);
                    d.ahead = Some((t, act));
                }
                continue;
            }
            seq += 1;
            if t == usize::MAX {
                w.drop_pool();
                rec.step(&w, None, &st, None);
                writeln!(tf, "{}", trace_event(run, seq, &w, None, &st)).unwrap();
                continue;
            }
            if st.a.starts_with("Start") && st.a != "StartReturn" {
                d.ops_left = d.ops_left.saturating_sub(1);
            }
            if st.a == "StartGet" {
                let s = |i: usize| st.x[i].as_str().unwrap().to_string();
                d.mode[t] = (s(0), s(1), s(2));
                d.ticked[t] = false;
            }
            if st.a == "Call" || st.a == "Resume" {
                if let (Some("ok"), TState::AtCall { kind: CallKind::Create, .. } | TState::Pending { gate: Some((CallKind::Create, _)) }) = (st.x[0].as_str(), &w.ts[t]) {
                    d.created += 1;
                }
            }
            if st.a == "Tick" {
                d.ticked[t] = true;
            }
            let before = w.ts[t].clone();
            w.send(t, command_of(&st).unwrap());
            // did this step let go of the mutex the task sent ahead is waiting for?  (a holder is parked
            // inside retain()'s predicate or inside resize()'s loop)
            let still_held = w.ts.iter().any(|s| {
                matches!(s, TState::AtPoint("m.resize.forget") | TState::AtPoint("m.resize.grow") | TState::AtCall { kind: CallKind::Pred, .. })
            });
            if let (Some((t2, st2)), false) = (d.ahead.clone(), still_held) {
                d.ahead = None;
                // the waiting task goes through at once: the state between the two steps cannot be looked at
                w.await_early(t2);
                rec.step(&w, Some(t), &st, Some(&before));
                let mut ev = trace_event(run, seq, &w, Some(t), &st);
                ev["blind"] = json!(true);
                writeln!(tf, "{}", ev).unwrap();
                if !w.hung {
                    seq += 1;
                    let before2 = w.ts[t2].clone();
                    w.send(t2, Cmd::Go(None));
                    rec.step(&w, Some(t2), &st2, Some(&before2));
                    writeln!(tf, "{}", trace_event(run, seq, &w, Some(t2), &st2)).unwrap();
                }
            } else {
                rec.step(&w, Some(t), &st, Some(&before));
                writeln!(tf, "{}", trace_event(run, seq, &w, Some(t), &st)).unwrap();
            }
            if w.hung {
                hung += 1;
                break;
            }
        }
        total_steps += seq;
        if !w.hung {
            obs::drain_and_probe(&mut w, &mut rec);
        }
        let res = PathResult { id: run, conform: true, ..Default::default() };
        rec.end(&w, &res);
        if let Some(f) = of.as_mut() {
            for l in &rec.lines {
                writeln!(f, "{}", l).unwrap();
            }
        }
        w.shutdown();
    }
    println!("{}", json!({"runs": runs, "steps": total_steps, "hung": hung}));
    tf.flush().unwrap();
    if let Some(f) = of.as_mut() {
        f.flush().unwrap();
    }
    std::process::exit(0);
}
