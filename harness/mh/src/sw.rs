//! C14: histories of the SyncWrapper specification driven on the real wrapper.
//! The blocking pool's own steps cannot be scheduled from outside: after every owner
//! step the harness waits for the real pool to settle in the state the model predicts
//! (closures are gated, so how long they run IS controlled).

use std::collections::BTreeMap;
use std::future::Future;
use std::pin::Pin;
use std::sync::{Arc, Condvar, Mutex};
use std::task::Poll;
use std::thread::ThreadId;
use std::time::{Duration, Instant};

use deadpool_sync::{InteractError, SyncWrapper};
use serde::{Deserialize, Serialize};
use serde_json::{json, Value};

use crate::replay::{PathRec, PathResult};
use crate::world::INJECTED;

#[derive(Clone, Debug, Deserialize, Serialize)]
pub struct SwCfg {
    pub k: usize,
    pub ninteract: usize,
}

#[derive(Clone, Debug, Deserialize)]
pub struct SwPost {
    pub wrapper: String,
    pub poisoned: bool,
    pub js: Vec<String>,
    pub fut: Vec<String>,
    pub dtor: usize,
    #[serde(default = "yes")]
    pub stable: bool,
}
fn yes() -> bool {
    true
}

#[derive(Default)]
struct Log {
    seq: u64,
    ctor: Option<ThreadId>,
    started: BTreeMap<usize, ThreadId>,
    finished: BTreeMap<usize, bool>, // panic?
    dtor: Vec<ThreadId>,
    dtor_during_closure: bool,
    closure_after_dtor: bool,
}
type LogRef = Arc<Mutex<Log>>;

struct Val {
    log: LogRef,
}
impl Drop for Val {
    fn drop(&mut self) {
        let mut l = self.log.lock().unwrap();
        l.seq += 1;
        let inside = l.started.keys().any(|i| !l.finished.contains_key(i));
        if inside {
            l.dtor_during_closure = true;
        }
        l.dtor.push(std::thread::current().id());
    }
}

#[derive(Default)]
struct Gate {
    out: Mutex<Option<bool>>, // Some(panic?)
    cv: Condvar,
}

type IFut = Pin<Box<dyn Future<Output = Result<usize, InteractError>>>>;

// A job that finds the mutex poisoned panics in `lock().unwrap()`; while that panic is being processed
// the guard inside the PoisonError is alive, i.e. the mutex is poisoned AND held.  The panic hook is the
// one place where that state can be looked at deterministically: it asks the wrapper of the run in
// progress whether it reports poisoning (it must: "from then on").
// (several runs execute at once: the runtime's threads are named after their run)
struct Probe {
    w: Option<std::sync::Weak<SyncWrapper<Val>>>,
    samples: usize,
    not_poisoned: usize,
}
static PROBES: Mutex<BTreeMap<String, Probe>> = Mutex::new(BTreeMap::new());

pub fn install_probe_hook() {
    let prev = std::panic::take_hook();
    std::panic::set_hook(Box::new(move |info| {
        let msg = info.payload().downcast_ref::<String>().cloned().or_else(|| info.payload().downcast_ref::<&str>().map(|s| s.to_string())).unwrap_or_default();
        if msg.contains("PoisonError") {
            let key = std::thread::current().name().unwrap_or("").to_string();
            let w = PROBES.lock().ok().and_then(|g| g.get(&key).and_then(|p| p.w.as_ref().and_then(|w| w.upgrade())));
            if let Some(w) = w {
                let reported = w.is_mutex_poisoned();
                if let Ok(mut g) = PROBES.lock() {
                    if let Some(p) = g.get_mut(&key) {
                        p.samples += 1;
                        if !reported {
                            p.not_poisoned += 1;
                        }
                    }
                }
            }
        }
        prev(info)
    }));
}

const SETTLE: Duration = Duration::from_millis(1500);

struct Sw {
    cfg: SwCfg,
    log: LogRef,
    gates: Vec<Arc<Gate>>,
    w: Option<Arc<SyncWrapper<Val>>>,
    futs: BTreeMap<usize, IFut>,
    results: BTreeMap<usize, String>,
    owner: ThreadId,
    async_threads: Vec<ThreadId>,
    paniced: bool,
    key: String,
}

async fn poll_once(f: &mut IFut) -> Option<Result<usize, InteractError>> {
    std::future::poll_fn(|cx| match f.as_mut().poll(cx) {
        Poll::Ready(r) => Poll::Ready(Some(r)),
        Poll::Pending => Poll::Ready(None),
    })
    .await
}

fn res_name(r: &Result<usize, InteractError>) -> String {
    match r {
        Ok(_) => "ok".into(),
        Err(InteractError::Panic(_)) => "panic".into(),
        Err(InteractError::Aborted) => "aborted".into(),
    }
}

impl Sw {
    fn closures_inside(&self) -> Vec<usize> {
        let l = self.log.lock().unwrap();
        l.started.keys().filter(|i| !l.finished.contains_key(i)).copied().collect()
    }

    /// what can be observed now, in the model's terms
    async fn observe(&mut self) -> (Vec<usize>, usize, BTreeMap<usize, String>) {
        // collect futures that have completed
        let keys: Vec<usize> = self.futs.keys().copied().collect();
        for i in keys {
            let f = self.futs.get_mut(&i).unwrap();
            if let Some(r) = poll_once(f).await {
                self.results.insert(i, res_name(&r));
                self.futs.remove(&i);
            }
        }
        let d = self.log.lock().unwrap().dtor.len();
        (self.closures_inside(), d, self.results.clone())
    }

    fn matches(&self, p: &SwPost, obs: &(Vec<usize>, usize, BTreeMap<usize, String>)) -> Vec<String> {
        let mut d = vec![];
        let want_inside: Vec<usize> = p.js.iter().enumerate().filter(|(_, s)| *s == "closure").map(|(i, _)| i + 1).collect();
        if obs.0 != want_inside {
            d.push(format!("closures running: code {:?} model {:?}", obs.0, want_inside));
        }
        if obs.1 != p.dtor {
            d.push(format!("destructor runs: code {} model {}", obs.1, p.dtor));
        }
        for (i, f) in p.fut.iter().enumerate() {
            let i = i + 1;
            let got = match (self.results.get(&i), self.futs.contains_key(&i)) {
                (Some(r), _) => r.clone(),
                (None, true) => "pending".into(),
                (None, false) => {
                    if f == "cancelled" {
                        "cancelled".into()
                    } else {
                        "none".into()
                    }
                }
            };
            if &got != f {
                d.push(format!("interact {} future: code {} model {}", i, got, f));
            }
        }
        if let Some(w) = &self.w {
            if w.is_mutex_poisoned() != p.poisoned {
                d.push(format!("is_mutex_poisoned: code {} model {}", w.is_mutex_poisoned(), p.poisoned));
            }
        }
        d
    }

    async fn settle(&mut self, p: &SwPost) -> Vec<String> {
        let t0 = Instant::now();
        loop {
            let obs = self.observe().await;
            let d = self.matches(p, &obs);
            if d.is_empty() || t0.elapsed() > SETTLE {
                return d;
            }
            tokio::time::sleep(Duration::from_micros(200)).await;
        }
    }

    fn event(&self, run: u64, i: usize, kind: &str, act: &str, settled: &str, expect: &str, stable: bool) -> String {
        let l = self.log.lock().unwrap();
        let on_async = |t: &ThreadId| *t == self.owner || self.async_threads.contains(t);
        json!({
            "run": run, "i": i, "k": kind, "act": act,
            "ctor_on_async": l.ctor.as_ref().map(on_async).unwrap_or(false),
            "closure_on_async": l.started.values().any(on_async),
            "dtor_on_async": l.dtor.iter().any(on_async),
            "dtor": l.dtor.len(), "dtor_during_closure": l.dtor_during_closure, "closure_after_dtor": l.closure_after_dtor,
            "paniced": l.finished.values().any(|p| *p), "alive": self.w.is_some(),
            "busy_samples": PROBES.lock().ok().and_then(|g| g.get(&self.key).map(|p| p.samples)).unwrap_or(0),
            "busy_not_poisoned": PROBES.lock().ok().and_then(|g| g.get(&self.key).map(|p| p.not_poisoned)).unwrap_or(0),
            "poisoned": self.w.as_ref().map(|w| w.is_mutex_poisoned()).unwrap_or(false),
            "settled": settled, "expect_settled": expect, "stable": stable,
        })
        .to_string()
    }
}

pub fn run_path(cfg: &SwCfg, path: &PathRec<SwPost>, record: bool) -> (PathResult, Vec<String>) {
    let mut res = PathResult { id: path.id, conform: true, ..Default::default() };
    let mut lines = vec![];
    let key = format!("swrun{}", path.id);
    PROBES.lock().unwrap().insert(key.clone(), Probe { w: None, samples: 0, not_poisoned: 0 });
    let rt = tokio::runtime::Builder::new_multi_thread()
        .worker_threads(1)
        .max_blocking_threads(cfg.k)
        .thread_name(key.clone())
        .enable_all()
        .build()
        .unwrap();
    let log: LogRef = Arc::new(Mutex::new(Log::default()));
    let owner = std::thread::current().id();
    let worker = rt.block_on(async { tokio::spawn(async { std::thread::current().id() }).await.unwrap() });
    let mut sw = Sw {
        cfg: cfg.clone(),
        log: log.clone(),
        gates: (0..cfg.ninteract + 1).map(|_| Arc::new(Gate::default())).collect(),
        w: None,
        futs: BTreeMap::new(),
        results: BTreeMap::new(),
        owner,
        async_threads: vec![worker],
        paniced: false,
        key: key.clone(),
    };
    rt.block_on(async {
        let mut n = 0;
        if record {
            lines.push(sw.event(path.id, n, "begin", "-", "-", "-", true));
        }
        let mut uncontrolled = false;
        for (si, st) in path.steps.iter().enumerate() {
            res.steps = si + 1;
            if let Some(p) = &st.post {
                // two jobs wanting the mutex (on a thread already, or about to be picked up by
                // a free thread): who wins is decided by the OS, not by the harness
                let started = p.js.iter().filter(|s| *s == "started").count();
                let on_thread = p.js.iter().filter(|s| *s == "started" || *s == "closure").count();
                let queued = p.js.iter().filter(|s| *s == "queued").count();
                if started + queued.min(cfg.k.saturating_sub(on_thread)) >= 2 {
                    uncontrolled = true;
                }
            }
            let i = st.x.first().and_then(|v| v.as_u64()).unwrap_or(0) as usize;
            let mut settled = String::from("-");
            let mut expect = String::from("-");
            match st.a.as_str() {
                "New" => {
                    let l2 = log.clone();
                    let r = SyncWrapper::new(deadpool::Runtime::Tokio1, move || {
                        l2.lock().unwrap().ctor = Some(std::thread::current().id());
                        Ok::<_, ()>(Val { log: l2.clone() })
                    })
                    .await;
                    sw.w = r.ok().map(Arc::new);
                    if let Some(p) = PROBES.lock().unwrap().get_mut(&sw.key) {
                        p.w = sw.w.as_ref().map(Arc::downgrade);
                    }
                }
                "Interact" => {
                    if let Some(w) = sw.w.clone() {
                        let l2 = log.clone();
                        let g = sw.gates[i].clone();
                        let mut f: IFut = Box::pin(async move {
                            w.interact(move |_v: &mut Val| {
                                {
                                    let mut l = l2.lock().unwrap();
                                    l.seq += 1;
                                    if !l.dtor.is_empty() {
                                        l.closure_after_dtor = true;
                                    }
                                    l.started.insert(i, std::thread::current().id());
                                }
                                let mut o = g.out.lock().unwrap();
                                while o.is_none() {
                                    o = g.cv.wait(o).unwrap();
                                }
                                let p = o.unwrap();
                                drop(o);
                                l2.lock().unwrap().finished.insert(i, p);
                                if p {
                                    panic!("{}", INJECTED);
                                }
                                i
                            })
                            .await
                        });
                        if let Some(r) = poll_once(&mut f).await {
                            sw.results.insert(i, res_name(&r));
                        } else {
                            sw.futs.insert(i, f);
                        }
                    }
                }
                "Cancel" => {
                    sw.futs.remove(&i);
                }
                "Release" => {
                    let out = st.x.get(1).and_then(|v| v.as_str()).unwrap_or("ok") == "panic";
                    if out {
                        sw.paniced = true;
                    }
                    let was_pending = sw.futs.contains_key(&i);
                    *sw.gates[i].out.lock().unwrap() = Some(out);
                    sw.gates[i].cv.notify_all();
                    if was_pending {
                        expect = if out { "panic".into() } else { "ok".into() };
                    }
                }
                "DropWrapper" => {
                    let w = sw.w.take();
                    drop(w);
                }
                _ => {} // StartJob / Lock: the pool's own steps; wait for them below
            }
            // the real pool runs ahead through its own steps: compare in stable states only
            let d = match &st.post {
                Some(p) if p.stable => sw.settle(p).await,
                _ => vec![],
            };
            if expect != "-" {
                settled = sw.results.get(&i).cloned().unwrap_or_else(|| "pending".into());
            }
            n += 1;
            if record {
                lines.push(sw.event(path.id, n, "step", &st.a, &settled, &expect, st.post.as_ref().map(|p| p.stable).unwrap_or(false)));
            }
            if res.conform && !d.is_empty() {
                // which of several jobs waiting for the mutex gets it first is not ours to decide
                if uncontrolled {
                    res.inconclusive = true;
                    break;
                }
                res.conform = false;
                res.div_step = Some(si);
                res.div_action = Some(format!("{}({})", st.a, st.x.iter().map(|v| v.to_string()).collect::<Vec<_>>().join(",")));
                res.div_what = d;
            }
        }
        // drain: let every closure finish, give up every future, drop the wrapper, let the pool settle
        for g in &sw.gates {
            let mut o = g.out.lock().unwrap();
            if o.is_none() {
                *o = Some(false);
            }
            g.cv.notify_all();
        }
        let t0 = Instant::now();
        while !sw.futs.is_empty() && t0.elapsed() < SETTLE {
            sw.observe().await;
            tokio::time::sleep(Duration::from_micros(200)).await;
        }
        sw.futs.clear();
        let had_wrapper = sw.w.is_some() || log.lock().unwrap().ctor.is_some();
        drop(sw.w.take());
        let t0 = Instant::now();
        while had_wrapper && log.lock().unwrap().dtor.is_empty() && t0.elapsed() < SETTLE {
            tokio::time::sleep(Duration::from_micros(200)).await;
        }
        // a second destructor run would show up shortly after
        tokio::time::sleep(Duration::from_millis(2)).await;
        n += 1;
        if record {
            lines.push(sw.event(path.id, n, if had_wrapper { "end" } else { "end0" }, "End", "-", "-", true));
        }
    });
    rt.shutdown_timeout(Duration::from_millis(200));
    PROBES.lock().unwrap().remove(&key);
    let _ = Value::Null;
    (res, lines)
}
