//! Direction A for the unmanaged pool: replay specification behaviours on the real code.

use std::collections::BTreeMap;
use std::sync::Arc;

use serde::Deserialize;
use serde_json::{json, Value};

use crate::replay::{PathRec, PathResult, Step};
use crate::uworld::*;
use crate::world::{Cmd, OpResult, TState};

#[derive(Clone, Debug, Deserialize)]
pub struct UPost {
    pub permits: usize,
    pub spermits: usize,
    pub closed: bool,
    pub sclosed: bool,
    pub size: i64,
    pub avail: i64,
    pub queue: Vec<u32>,
    pub pc: BTreeMap<String, String>,
    pub res: BTreeMap<String, String>,
    pub woken: BTreeMap<String, bool>,
    pub held: BTreeMap<String, Vec<u32>>,
    pub ext: Vec<u32>,
    pub dead: Vec<u32>,
    pub gone: bool,
}

pub fn compare(w: &UWorld, p: &UPost, acting: Option<usize>) -> Vec<String> {
    let mut d = vec![];
    let s = w.snapshot();
    macro_rules! chk {
        ($name:expr, $a:expr, $b:expr) => {
            if $a != $b {
                d.push(format!("{}: code {:?} model {:?}", $name, $a, $b));
            }
        };
    }
    chk!("pool_gone", s.pool_gone, p.gone);
    if !s.pool_gone && !p.gone {
        chk!("permits", s.permits, p.permits);
        chk!("size_permits", s.size_permits, p.spermits);
        chk!("closed", s.closed, p.closed);
        chk!("size_closed", s.size_closed, p.sclosed);
        chk!("size", s.size as i64, p.size);
        chk!("available", s.available as i64, p.avail);
        chk!("queue length", s.queue, Some(p.queue.len()));
    }
    for (ix, name) in w.cfg.tasks.iter().enumerate() {
        let pc = p.pc.get(name).map(|s| s.as_str()).unwrap_or("idle");
        let got = match &w.ts[ix] {
            TState::Idle => "idle".to_string(),
            TState::AtPoint(s) => s.to_string(),
            TState::Pending { .. } => "wait".into(),
            TState::AtCall { .. } => "call".into(),
            TState::Hung => "HUNG".into(),
        };
        let expect = if pc == "g_wait" || pc == "a_wait" { "wait".to_string() } else { pc.to_string() };
        chk!(format!("task {} at", name), got, expect);
        if pc == "g_wait" || pc == "a_wait" {
            chk!(format!("task {} woken", name), w.woken(ix), *p.woken.get(name).unwrap_or(&false));
        }
        chk!(format!("task {} holds", name), w.held(ix), p.held.get(name).cloned().unwrap_or_default());
        if Some(ix) == acting && pc == "idle" {
            if let Some(r) = &w.last[ix] {
                chk!(format!("task {} result", name), r.spec_name(), p.res.get(name).cloned().unwrap_or_else(|| "none".into()));
            }
        }
    }
    chk!("objects outside the pool", w.ext(), p.ext);
    chk!("dropped objects", w.dead(), p.dead);
    let t = w.truth();
    if !t.unexpected.is_empty() {
        d.push(format!("unexpected panic: {}", t.unexpected[0]));
    }
    if t.dup > 0 {
        d.push("an object was seen in two places".into());
    }
    d
}

pub fn command_of(st: &Step) -> Option<Cmd> {
    let s0 = |i: usize| st.x.get(i).and_then(|v| v.as_str()).unwrap_or("").to_string();
    let u0 = |i: usize| st.x.get(i).and_then(|v| v.as_u64()).unwrap_or(0) as u32;
    Some(match st.a.as_str() {
        "StartGet" => Cmd::UGet(s0(0), st.x.get(1).and_then(|v| v.as_bool()).unwrap_or(false)),
        "StartAdd" => Cmd::UAdd(u0(0), s0(1)),
        "StartTake" => Cmd::StartTake(u0(0)),
        "StartReturn" => Cmd::StartReturn(u0(0)),
        "StartClose" => Cmd::StartClose,
        "GAcq" | "GPop" | "GClosed" | "Tk" | "DPush" | "DAdd" | "DClean" | "AAcq" | "APush" | "AAdd" | "CSem" | "CSsem" | "CClear" => Cmd::Go(None),
        "GWaitPoll" | "AWaitPoll" => Cmd::Poll,
        "GWaitCancel" | "AWaitCancel" => Cmd::Cancel,
        "GWaitExpire" => Cmd::Expire,
        _ => return None,
    })
}

pub fn applicable(w: &UWorld, t: usize, cmd: &Cmd) -> bool {
    match (&w.ts[t], cmd) {
        (TState::Idle, Cmd::UGet(..) | Cmd::StartClose) => w.pool().is_some(),
        (TState::Idle, Cmd::UAdd(o, _)) => w.pool().is_some() && w.ext().contains(o),
        (TState::Idle, Cmd::StartReturn(o) | Cmd::StartTake(o)) => w.held(t).contains(o),
        (TState::AtPoint(_), Cmd::Go(_)) => true,
        (TState::Pending { .. }, Cmd::Poll | Cmd::Cancel | Cmd::Expire) => true,
        _ => false,
    }
}

pub struct URecorder {
    pub lines: Vec<String>,
    pub enabled: bool,
    run: u64,
    i: usize,
    close_ret: bool,
    op: Vec<String>,
    mode: Vec<String>,
    late: Vec<bool>,
    solo: Vec<Option<i64>>,
}

impl URecorder {
    pub fn new(enabled: bool) -> Self {
        URecorder { lines: vec![], enabled, run: 0, i: 0, close_ret: false, op: vec![], mode: vec![], late: vec![], solo: vec![] }
    }
    pub fn begin(&mut self, run: u64, w: &UWorld) {
        let n = w.cfg.tasks.len();
        self.run = run;
        self.i = 0;
        self.close_ret = false;
        self.op = vec!["none".into(); n];
        self.mode = vec!["-".into(); n];
        self.late = vec![false; n];
        self.solo = vec![None; n];
        let e = self.base(w, "begin", None);
        self.push(e);
    }
    fn push(&mut self, e: Value) {
        if self.enabled {
            self.lines.push(e.to_string());
        }
        self.i += 1;
    }
    fn base(&self, w: &UWorld, kind: &str, t: Option<usize>) -> Value {
        let s = w.snapshot();
        let n = w.cfg.tasks.len();
        let nheld: usize = (0..n).map(|t| w.held(t).len()).sum();
        let blocked = |op_is_add: bool| {
            (0..n)
                .filter(|t| {
                    matches!(w.ts[*t], TState::Pending { .. })
                        && !w.woken(*t)
                        && (self.op[*t].contains("add") == op_is_add)
                        && !(if op_is_add { s.size_closed } else { s.closed })
                })
                .count()
        };
        let quiescent = (0..n).all(|t| match &w.ts[t] {
            TState::Idle => true,
            TState::Pending { .. } => !w.woken(t) && !(if self.op[t].contains("add") { s.size_closed } else { s.closed }),
            _ => false,
        });
        let atrest = w.ts.iter().all(|x| *x == TState::Idle);
        let ndead = w.dead().len();
        let next = w.ext().len();
        let truth = w.truth();
        json!({
            "run": self.run, "i": self.i, "k": kind,
            "task": t.map(|t| w.cfg.tasks[t].clone()).unwrap_or_else(|| "-".into()),
            "act": "-", "done": false, "op": "none", "mode": "-", "result": "-", "late": false,
            "total": w.cfg.nobjs, "next": next, "nheld": nheld, "ndead": ndead,
            "nq": s.queue.map(|q| q as i64).unwrap_or(-1),
            "atrest": atrest, "quiescent": quiescent, "blocked_get": blocked(false), "blocked_add": blocked(true),
            "max": if w.cfg.preload > 0 { w.cfg.preload } else { w.cfg.max_size },
            "st_max": s.status.0, "st_size": s.status.1, "st_avail": s.status.2, "st_wait": s.status.3,
            "closed": s.closed, "sclosed": s.size_closed, "closeret": self.close_ret, "poolgone": s.pool_gone,
            "upanics": truth.unexpected.len(), "dup": truth.dup, "ncdrop": truth.cdrop.len(),
            "solo": false, "b_inpool": 0,
            "p_got": -1, "p_q": 0, "p_added": 0, "p_free": 0, "p_ext": 0, "p_refused": "-", "p_first": "-", "stranded": 0,
        })
    }
    pub fn step(&mut self, w: &UWorld, t: Option<usize>, st: &Step, before: Option<&TState>) {
        let Some(t) = t else {
            let mut e = self.base(w, "step", None);
            e["act"] = json!("DropPool");
            self.push(e);
            return;
        };
        for u in 0..w.ts.len() {
            if u != t {
                self.solo[u] = None;
            }
        }
        let others_idle = (0..w.ts.len()).all(|u| u == t || w.ts[u] == TState::Idle);
        match st.a.as_str() {
            "StartGet" => {
                let rm = st.x.get(1).and_then(|v| v.as_bool()).unwrap_or(false);
                self.op[t] = if rm { "remove".into() } else { "get".into() };
                self.mode[t] = st.x.first().and_then(|v| v.as_str()).unwrap_or("-").into();
                self.late[t] = self.close_ret;
            }
            "StartAdd" => {
                self.op[t] = "add".into();
                self.mode[t] = st.x.get(1).and_then(|v| v.as_str()).unwrap_or("-").into();
                self.late[t] = self.close_ret;
                if others_idle {
                    let s = w.snapshot();
                    // the object being added has already left `ext`; nothing else is in flight
                    let nheld: usize = (0..w.ts.len()).map(|t| w.held(t).len()).sum();
                    self.solo[t] = s.queue.map(|q| q as i64 + nheld as i64);
                }
            }
            "StartTake" => self.op[t] = "take".into(),
            "StartReturn" => self.op[t] = "return".into(),
            "StartClose" => self.op[t] = "close".into(),
            _ => {}
        }
        if let Some(TState::AtPoint("u.close.clear")) = before {
            self.close_ret = true;
            for u in 0..w.ts.len() {
                if matches!(w.ts[u], TState::Pending { .. } | TState::AtPoint("u.get.acquire") | TState::AtPoint("u.add.acquire")) {
                    self.late[u] = true;
                }
            }
        }
        let mut e = self.base(w, "step", Some(t));
        e["act"] = json!(st.a);
        e["op"] = json!(self.op[t]);
        e["mode"] = json!(self.mode[t]);
        if w.ts[t] == TState::Idle && self.op[t] != "none" {
            e["done"] = json!(true);
            let r = w.last[t].clone().unwrap_or(OpResult::Unit);
            e["result"] = json!(r.spec_name());
            e["late"] = json!(self.late[t]);
            if let Some(b) = self.solo[t] {
                e["solo"] = json!(true);
                e["b_inpool"] = json!(b);
            }
            self.solo[t] = None;
            if self.op[t] == "close" {
                // close() has returned (whatever it did)
                self.close_ret = true;
            }
            self.op[t] = "none".into();
        }
        self.push(e);
    }
    pub fn probe(&mut self, w: &UWorld, f: Value) {
        let mut e = self.base(w, "probe", None);
        e["act"] = json!("Probe");
        for (k, v) in f.as_object().unwrap() {
            e[k] = v.clone();
        }
        self.push(e);
    }
    pub fn end(&mut self, w: &UWorld) {
        let mut e = self.base(w, "end", None);
        e["act"] = json!("End");
        self.push(e);
    }
}

fn drain_step(w: &mut UWorld, rec: &mut URecorder, t: usize, cmd: Cmd, act: &str, x: Vec<Value>) {
    let before = w.ts[t].clone();
    w.send(t, cmd);
    let st = Step { a: act.into(), t: w.cfg.tasks[t].clone(), x, post: None };
    let n0 = rec.lines.len();
    rec.step(w, Some(t), &st, Some(&before));
    if rec.enabled && rec.lines.len() > n0 {
        let mut v: Value = serde_json::from_str(&rec.lines[n0]).unwrap();
        v["k"] = json!("drain");
        rec.lines[n0] = v.to_string();
    }
}

pub fn drain_and_probe(w: &mut UWorld, rec: &mut URecorder) {
    let n = w.cfg.tasks.len();
    let mut guard = 0;
    loop {
        guard += 1;
        if guard > 10_000 || w.hung {
            break;
        }
        let mut progressed = false;
        for t in 0..n {
            let (cmd, act, x) = match &w.ts[t] {
                TState::AtPoint(_) => (Cmd::Go(None), "Go", vec![]),
                TState::Pending { .. } => {
                    if w.woken(t) {
                        (Cmd::Poll, "GWaitPoll", vec![])
                    } else {
                        continue;
                    }
                }
                TState::Idle => match w.held(t).first() {
                    Some(id) => (Cmd::StartReturn(*id), "StartReturn", vec![json!(id)]),
                    None => continue,
                },
                _ => continue,
            };
            drain_step(w, rec, t, cmd, act, x);
            progressed = true;
            break;
        }
        if !progressed {
            // adders blocked on a full pool / getters blocked on an empty one are legitimate:
            // give up their wait
            match (0..n).find(|t| matches!(w.ts[*t], TState::Pending { .. })) {
                Some(t) => drain_step(w, rec, t, Cmd::Cancel, "GWaitCancel", vec![]),
                None => break,
            }
        }
    }
    if w.hung {
        return;
    }
    let Some(pool) = w.pool() else {
        rec.probe(w, json!({"p_got": -1}));
        return;
    };
    // probe on this thread (no schedule hook here): take everything out, then fill up
    let s = w.snapshot();
    let p_q = s.queue.unwrap_or(0);
    let mut got = vec![];
    let mut first = String::from("-");
    loop {
        match pool.try_get() {
            Ok(o) => got.push(o),
            Err(e) => {
                first = format!("{:?}", e).to_lowercase();
                break;
            }
        }
        if got.len() > w.cfg.nobjs + 2 {
            break;
        }
    }
    let inpool = got.len();
    let max = if w.cfg.preload > 0 { w.cfg.preload } else { w.cfg.max_size };
    let p_free = max as i64 - inpool as i64;
    // hand-made objects for filling up: ids beyond the universe are not tracked, so use
    // the real outside objects via a task-less add
    let ext_ids = w.ext();
    let p_ext = ext_ids.len();
    let (mut added, mut refused) = (0, String::from("-"));
    for id in ext_ids {
        let o = w.take_ext(id);
        let Some(o) = o else { continue };
        match pool.try_add(o) {
            Ok(()) => added += 1,
            Err((o, e)) => {
                refused = format!("{:?}", e).to_lowercase();
                w.put_ext(o);
                break;
            }
        }
    }
    rec.probe(
        w,
        json!({"p_got": inpool, "p_q": p_q, "p_added": added, "p_free": p_free, "p_ext": p_ext, "p_refused": refused, "p_first": first,
               "nheld": inpool}),
    );
    drop(got);
    drop(pool);
}

pub fn run_path(cfg: &UCfg, path: &PathRec<UPost>, rec: &mut URecorder) -> PathResult {
    let mut w = UWorld::new(cfg.clone());
    let mut res = PathResult { id: path.id, conform: true, ..Default::default() };
    rec.begin(path.id, &w);
    for (i, st) in path.steps.iter().enumerate() {
        res.steps = i + 1;
        if st.a == "DropPool" {
            if w.ts.iter().all(|s| *s == TState::Idle) {
                w.drop_pool();
                rec.step(&w, None, &st.plain(), None);
            } else {
                res.skipped += 1;
            }
        } else {
            let Some(t) = w.task_ix(&st.t) else { continue };
            let plain = st.plain();
            let Some(cmd) = command_of(&plain) else { continue };
            if !applicable(&w, t, &cmd) {
                if res.conform {
                    res.conform = false;
                    res.div_step = Some(i);
                    res.div_action = Some(format!("{}({})", st.a, st.t));
                    res.div_what = vec![format!("command {:?} not applicable in task state {:?}", cmd, w.ts[t])];
                }
                res.skipped += 1;
                continue;
            }
            let before = w.ts[t].clone();
            w.send(t, cmd);
            rec.step(&w, Some(t), &plain, Some(&before));
            if w.hung {
                res.hung = true;
                if res.conform {
                    res.conform = false;
                    res.div_step = Some(i);
                    res.div_action = Some(format!("{}({})", st.a, st.t));
                    res.div_what = vec!["task did not reach the next schedule point (hang)".into()];
                }
                break;
            }
        }
        if res.conform {
            if let Some(p) = &st.post {
                let d = compare(&w, p, w.task_ix(&st.t));
                if !d.is_empty() {
                    res.conform = false;
                    res.div_step = Some(i);
                    res.div_action = Some(format!("{}({}{})", st.a, st.t, st.x.iter().map(|v| format!(",{}", v)).collect::<String>()));
                    res.div_what = d;
                }
            }
        }
    }
    if !w.hung {
        drain_and_probe(&mut w, rec);
    }
    rec.end(&w);
    w.shutdown();
    let _ = Arc::new(0);
    res
}
