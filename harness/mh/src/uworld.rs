//! The same deterministic scheduler for deadpool::unmanaged::Pool.

use std::cell::{Cell, RefCell};
use std::collections::BTreeMap;
use std::future::Future;
use std::panic::{catch_unwind, AssertUnwindSafe};
use std::pin::Pin;
use std::rc::Rc;
use std::sync::atomic::{AtomicBool, Ordering};
use std::sync::mpsc::{channel, Receiver, RecvTimeoutError, Sender};
use std::sync::{Arc, Mutex};
use std::task::{Context, Poll, Waker};
use std::time::Duration;

use deadpool::unmanaged::{Object, Pool, PoolConfig, PoolError};
use deadpool::Runtime;
use serde::{Deserialize, Serialize};

use crate::world::{panic_msg, park_point, Cmd, FlagWaker, OpResult, Report, TState, TaskCtx, CTX, HANG_TIMEOUT, INJECTED};

#[derive(Clone, Debug, Deserialize, Serialize)]
pub struct UCfg {
    pub tasks: Vec<String>,
    pub max_size: usize,
    pub preload: usize,
    pub nobjs: usize,
    #[serde(default = "yes")]
    pub has_runtime: bool,
}
fn yes() -> bool {
    true
}

#[derive(Debug, Default)]
pub struct UTruth {
    pub dropped: Vec<bool>,
    pub unexpected: Vec<String>,
    pub dup: usize,
    /// objects destroyed by the caller itself (a cancelled add() owns its object)
    pub cdrop: Vec<u32>,
}
pub type UTruthRef = Arc<Mutex<UTruth>>;

pub struct UObj {
    pub id: u32,
    truth: UTruthRef,
}
impl Drop for UObj {
    fn drop(&mut self) {
        let mut t = self.truth.lock().unwrap();
        let i = (self.id - 1) as usize;
        if t.dropped[i] {
            t.dup += 1;
        }
        t.dropped[i] = true;
    }
}

pub type UPool = Pool<UObj>;

struct Shared {
    cfg: UCfg,
    truth: UTruthRef,
    pool: Mutex<Option<UPool>>,
    woken: Vec<Arc<AtomicBool>>,
    held: Vec<Mutex<BTreeMap<u32, Object<UObj>>>>,
    /// objects in the caller's hands outside the pool
    ext: Mutex<BTreeMap<u32, UObj>>,
}

fn err_name(e: &PoolError) -> String {
    match e {
        PoolError::Timeout => "timeout",
        PoolError::Closed => "closed",
        PoolError::NoRuntimeSpecified => "no_runtime",
    }
    .into()
}

enum Fut {
    Get(Pin<Box<dyn Future<Output = Result<Object<UObj>, PoolError>>>>),
    Remove(Pin<Box<dyn Future<Output = Result<UObj, PoolError>>>>),
    Add(Pin<Box<dyn Future<Output = Result<(), (UObj, PoolError)>>>>),
}

fn task_main(ix: usize, sh: Arc<Shared>, cmd_rx: Receiver<Cmd>, rep_tx: Sender<(usize, Report)>) {
    let c = Rc::new(TaskCtx {
        ix,
        cmd_rx,
        rep_tx,
        gate_outcome: Cell::new(None),
        at_gate: Cell::new(None),
        keep: RefCell::new(None),
        cur_op: Cell::new("none"),
        lock_free: None,
    });
    CTX.with(|x| *x.borrow_mut() = Some(c.clone()));
    deadpool::verif::set_hook(Some(Box::new(park_point)));
    let rt = if sh.cfg.has_runtime {
        Some(tokio::runtime::Builder::new_current_thread().enable_time().start_paused(true).build().unwrap())
    } else {
        None
    };
    let _enter = rt.as_ref().map(|r| r.enter());
    let waker = Waker::from(Arc::new(FlagWaker(sh.woken[ix].clone())));
    let mut fut: Option<Fut> = None;
    let mut add_id: Option<u32> = None;
    let fin = Some(Duration::from_secs(1));
    loop {
        match c.recv() {
            Cmd::Exit => break,
            Cmd::UGet(mode, rm) => {
                let Some(pool) = sh.pool.lock().unwrap().clone() else {
                    c.report(Report::Done(OpResult::Unit));
                    continue;
                };
                match (mode.as_str(), rm) {
                    ("try", false) => {
                        let r = catch_unwind(AssertUnwindSafe(|| pool.try_get()));
                        drop(pool);
                        finish_get(&c, &sh, r);
                    }
                    ("try", true) => {
                        let r = catch_unwind(AssertUnwindSafe(|| pool.try_remove()));
                        drop(pool);
                        finish_remove(&c, &sh, r);
                    }
                    (m, false) => {
                        let to = if m == "timed" { fin } else { None };
                        fut = Some(Fut::Get(Box::pin(async move { pool.timeout_get(to).await })));
                        drive(&c, &sh, &mut fut, &waker);
                    }
                    (m, true) => {
                        let to = if m == "timed" { fin } else { None };
                        fut = Some(Fut::Remove(Box::pin(async move { pool.timeout_remove(to).await })));
                        drive(&c, &sh, &mut fut, &waker);
                    }
                }
            }
            Cmd::UAdd(id, mode) => {
                let Some(pool) = sh.pool.lock().unwrap().clone() else {
                    c.report(Report::Done(OpResult::Unit));
                    continue;
                };
                let o = sh.ext.lock().unwrap().remove(&id);
                let Some(o) = o else {
                    c.report(Report::Done(OpResult::Unit));
                    continue;
                };
                if mode == "try" {
                    let r = catch_unwind(AssertUnwindSafe(|| pool.try_add(o)));
                    drop(pool);
                    finish_add(&c, &sh, r);
                } else {
                    add_id = Some(id);
                    fut = Some(Fut::Add(Box::pin(async move { pool.add(o).await })));
                    drive(&c, &sh, &mut fut, &waker);
                }
            }
            Cmd::Poll => drive(&c, &sh, &mut fut, &waker),
            Cmd::Expire => {
                if let Some(rt) = rt.as_ref() {
                    rt.block_on(async { tokio::time::advance(Duration::from_secs(2)).await });
                }
                drive(&c, &sh, &mut fut, &waker);
            }
            Cmd::Cancel => {
                if let (Some(Fut::Add(_)), Some(id)) = (&fut, add_id) {
                    sh.truth.lock().unwrap().cdrop.push(id);
                }
                let f = fut.take();
                let r = catch_unwind(AssertUnwindSafe(move || drop(f)));
                c.report(Report::Done(match r {
                    Ok(()) => OpResult::Cancelled,
                    Err(p) => OpResult::Panicked(panic_msg(p)),
                }));
            }
            Cmd::StartReturn(id) => {
                let o = sh.held[ix].lock().unwrap().remove(&id);
                let r = catch_unwind(AssertUnwindSafe(move || drop(o)));
                done(&c, r.map(|_| OpResult::Unit));
            }
            Cmd::StartTake(id) => {
                let o = sh.held[ix].lock().unwrap().remove(&id);
                let sh2 = sh.clone();
                let r = catch_unwind(AssertUnwindSafe(move || {
                    if let Some(o) = o {
                        let inner = Object::take(o);
                        sh2.ext.lock().unwrap().insert(inner.id, inner);
                    }
                }));
                done(&c, r.map(|_| OpResult::Unit));
            }
            Cmd::StartClose => {
                let pool = sh.pool.lock().unwrap().clone();
                let r = catch_unwind(AssertUnwindSafe(move || {
                    if let Some(p) = pool {
                        p.close()
                    }
                }));
                done(&c, r.map(|_| OpResult::Unit));
            }
            other => panic!("harness bug: command {:?} for an idle unmanaged task", other),
        }
    }
    deadpool::verif::set_hook(None);
    CTX.with(|x| *x.borrow_mut() = None);
}

fn done(c: &TaskCtx, r: Result<OpResult, Box<dyn std::any::Any + Send>>) {
    c.report(Report::Done(match r {
        Ok(x) => x,
        Err(p) => OpResult::Panicked(panic_msg(p)),
    }));
}

type Caught<T> = Result<T, Box<dyn std::any::Any + Send>>;

fn note_dup(sh: &Shared, id: u32) {
    // the same object must never be in two places
    let dup = sh.ext.lock().unwrap().contains_key(&id) || sh.held.iter().any(|h| h.lock().unwrap().contains_key(&id));
    if dup {
        sh.truth.lock().unwrap().dup += 1;
    }
}

fn finish_get(c: &TaskCtx, sh: &Shared, r: Caught<Result<Object<UObj>, PoolError>>) {
    done(
        c,
        r.map(|r| match r {
            Ok(o) => {
                let id = o.id;
                note_dup(sh, id);
                sh.held[c.ix].lock().unwrap().insert(id, o);
                OpResult::UOk(id)
            }
            Err(e) => OpResult::UErr(err_name(&e)),
        }),
    );
}
fn finish_remove(c: &TaskCtx, sh: &Shared, r: Caught<Result<UObj, PoolError>>) {
    done(
        c,
        r.map(|r| match r {
            Ok(o) => {
                let id = o.id;
                note_dup(sh, id);
                sh.ext.lock().unwrap().insert(id, o);
                OpResult::UOk(id)
            }
            Err(e) => OpResult::UErr(err_name(&e)),
        }),
    );
}
fn finish_add(c: &TaskCtx, sh: &Shared, r: Caught<Result<(), (UObj, PoolError)>>) {
    done(
        c,
        r.map(|r| match r {
            Ok(()) => OpResult::UOk(0),
            Err((o, e)) => {
                sh.ext.lock().unwrap().insert(o.id, o);
                OpResult::UErr(err_name(&e))
            }
        }),
    );
}

fn drive(c: &TaskCtx, sh: &Shared, fut: &mut Option<Fut>, waker: &Waker) {
    let Some(f) = fut.as_mut() else {
        c.report(Report::Done(OpResult::Unit));
        return;
    };
    sh.woken[c.ix].store(false, Ordering::SeqCst);
    let mut cx = Context::from_waker(waker);
    enum R {
        Pending,
        Get(Result<Object<UObj>, PoolError>),
        Remove(Result<UObj, PoolError>),
        Add(Result<(), (UObj, PoolError)>),
    }
    let r = catch_unwind(AssertUnwindSafe(|| match f {
        Fut::Get(f) => match f.as_mut().poll(&mut cx) {
            Poll::Pending => R::Pending,
            Poll::Ready(x) => R::Get(x),
        },
        Fut::Remove(f) => match f.as_mut().poll(&mut cx) {
            Poll::Pending => R::Pending,
            Poll::Ready(x) => R::Remove(x),
        },
        Fut::Add(f) => match f.as_mut().poll(&mut cx) {
            Poll::Pending => R::Pending,
            Poll::Ready(x) => R::Add(x),
        },
    }));
    match r {
        Ok(R::Pending) => c.report(Report::Pending { gate: None }),
        Ok(R::Get(x)) => {
            *fut = None;
            finish_get(c, sh, Ok(x))
        }
        Ok(R::Remove(x)) => {
            *fut = None;
            finish_remove(c, sh, Ok(x))
        }
        Ok(R::Add(x)) => {
            *fut = None;
            finish_add(c, sh, Ok(x))
        }
        Err(p) => {
            let f = fut.take();
            let _ = catch_unwind(AssertUnwindSafe(move || drop(f)));
            c.report(Report::Done(OpResult::Panicked(panic_msg(p))));
        }
    }
}

pub struct UWorld {
    pub cfg: UCfg,
    sh: Arc<Shared>,
    cmd_tx: Vec<Sender<Cmd>>,
    rep_rx: Receiver<(usize, Report)>,
    pub ts: Vec<TState>,
    pub last: Vec<Option<OpResult>>,
    threads: Vec<Option<std::thread::JoinHandle<()>>>,
    pub hung: bool,
    pub pre_woken: bool,
    pub pre_closed: bool,
}

#[derive(Clone, Debug, Default, PartialEq, Eq, Serialize)]
pub struct USnap {
    pub permits: usize,
    pub size_permits: usize,
    pub closed: bool,
    pub size_closed: bool,
    pub size: usize,
    pub available: isize,
    pub queue: Option<usize>,
    pub status: (usize, usize, usize, usize),
    pub pool_gone: bool,
}

impl UWorld {
    pub fn new(cfg: UCfg) -> UWorld {
        let truth: UTruthRef = Arc::new(Mutex::new(UTruth { dropped: vec![false; cfg.nobjs], ..Default::default() }));
        let mk = |id: u32| UObj { id, truth: truth.clone() };
        let pool: UPool = if cfg.preload > 0 {
            // From<iterator>: max_size = number of objects
            Pool::from((1..=cfg.preload as u32).map(mk).collect::<Vec<_>>())
        } else if cfg.has_runtime {
            Pool::from_config(&PoolConfig { max_size: cfg.max_size, timeout: None, runtime: Some(Runtime::Tokio1) })
        } else {
            Pool::new(cfg.max_size)
        };
        let mut ext = BTreeMap::new();
        for id in (cfg.preload as u32 + 1)..=(cfg.nobjs as u32) {
            ext.insert(id, mk(id));
        }
        let n = cfg.tasks.len();
        let sh = Arc::new(Shared {
            cfg: cfg.clone(),
            truth,
            pool: Mutex::new(Some(pool)),
            woken: (0..n).map(|_| Arc::new(AtomicBool::new(false))).collect(),
            held: (0..n).map(|_| Mutex::new(BTreeMap::new())).collect(),
            ext: Mutex::new(ext),
        });
        let (rep_tx, rep_rx) = channel();
        let mut cmd_tx = vec![];
        let mut threads = vec![];
        for ix in 0..n {
            let (tx, rx) = channel();
            cmd_tx.push(tx);
            let sh2 = sh.clone();
            let rep = rep_tx.clone();
            threads.push(Some(
                std::thread::Builder::new().name(format!("utask{}", ix)).stack_size(1 << 20).spawn(move || task_main(ix, sh2, rx, rep)).unwrap(),
            ));
        }
        UWorld { cfg, sh, cmd_tx, rep_rx, ts: vec![TState::Idle; n], last: vec![None; n], threads, hung: false, pre_woken: false, pre_closed: false }
    }

    pub fn task_ix(&self, name: &str) -> Option<usize> {
        self.cfg.tasks.iter().position(|t| t == name)
    }

    pub fn send(&mut self, t: usize, cmd: Cmd) -> TState {
        if self.hung {
            return TState::Hung;
        }
        self.pre_woken = self.woken(t);
        if let Some(p) = self.pool() {
            self.pre_closed = p.is_closed();
        }
        if self.cmd_tx[t].send(cmd).is_err() {
            self.hung = true;
            return TState::Hung;
        }
        match self.rep_rx.recv_timeout(HANG_TIMEOUT) {
            Ok((ix, r)) => {
                let st = match r {
                    Report::AtPoint(s) => TState::AtPoint(s),
                    Report::AtCall { kind, idx, obj, rc, rec } => TState::AtCall { kind, idx, obj, rc, rec },
                    Report::Pending { gate } => TState::Pending { gate },
                    Report::Done(res) => {
                        if let OpResult::Panicked(m) = &res {
                            if m != INJECTED {
                                self.sh.truth.lock().unwrap().unexpected.push(m.clone());
                            }
                        }
                        self.last[ix] = Some(res);
                        TState::Idle
                    }
                };
                self.ts[ix] = st.clone();
                st
            }
            Err(RecvTimeoutError::Timeout) | Err(RecvTimeoutError::Disconnected) => {
                self.hung = true;
                self.ts[t] = TState::Hung;
                TState::Hung
            }
        }
    }

    pub fn woken(&self, t: usize) -> bool {
        self.sh.woken[t].load(Ordering::SeqCst)
    }
    pub fn held(&self, t: usize) -> Vec<u32> {
        self.sh.held[t].lock().unwrap().keys().copied().collect()
    }
    pub fn ext(&self) -> Vec<u32> {
        self.sh.ext.lock().unwrap().keys().copied().collect()
    }
    pub fn take_ext(&self, id: u32) -> Option<UObj> {
        self.sh.ext.lock().unwrap().remove(&id)
    }
    pub fn put_ext(&self, o: UObj) {
        self.sh.ext.lock().unwrap().insert(o.id, o);
    }
    pub fn dead(&self) -> Vec<u32> {
        self.sh.truth.lock().unwrap().dropped.iter().enumerate().filter(|(_, d)| **d).map(|(i, _)| i as u32 + 1).collect()
    }
    pub fn truth(&self) -> std::sync::MutexGuard<'_, UTruth> {
        self.sh.truth.lock().unwrap()
    }
    pub fn pool(&self) -> Option<UPool> {
        self.sh.pool.lock().unwrap().clone()
    }
    pub fn drop_pool(&mut self) {
        let p = self.sh.pool.lock().unwrap().take();
        drop(p);
    }
    pub fn snapshot(&self) -> USnap {
        match self.pool() {
            None => USnap { pool_gone: true, ..Default::default() },
            Some(p) => {
                let s = p.verif_snapshot();
                let st = p.status();
                USnap {
                    permits: s.permits,
                    size_permits: s.size_permits,
                    closed: s.closed,
                    size_closed: s.size_closed,
                    size: s.size,
                    available: s.available,
                    queue: s.queue,
                    status: (st.max_size, st.size, st.available, st.waiting),
                    pool_gone: false,
                }
            }
        }
    }
    pub fn shutdown(mut self) {
        for t in 0..self.cmd_tx.len() {
            let idle = matches!(self.ts[t], TState::Idle);
            let _ = self.cmd_tx[t].send(Cmd::Exit);
            if idle && !self.hung {
                if let Some(h) = self.threads[t].take() {
                    let _ = h.join();
                }
            }
        }
    }
}
