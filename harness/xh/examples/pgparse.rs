use std::str::FromStr;
fn main() {
    for u in std::env::args().skip(1) {
        match tokio_postgres::Config::from_str(&u) {
            Ok(c) => println!("{:?}\n  user={:?} pw={:?} db={:?} opts={:?} app={:?} hosts={:?} ports={:?} addrs={:?} ct={:?} ssl={:?} tsa={:?} cb={:?} lbh={:?}", u, c.get_user(), c.get_password(), c.get_dbname(), c.get_options(), c.get_application_name(), c.get_hosts(), c.get_ports(), c.get_hostaddrs(), c.get_connect_timeout(), c.get_ssl_mode(), c.get_target_session_attrs(), c.get_channel_binding(), c.get_load_balance_hosts()),
            Err(e) => println!("{:?}\n  ERR {}", u, e),
        }
    }
}
