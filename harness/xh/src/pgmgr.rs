//! C16: histories of spec/PgManager.tla driven on the real deadpool-postgres pool; the
//! connections are tokio duplex pipes to a scripted wire-level PostgreSQL server.

use std::collections::{BTreeMap, BTreeSet, VecDeque};
use std::sync::{Arc, Mutex};
use std::time::{Duration, Instant};

use deadpool_postgres::{Client, ClientWrapper, Manager, ManagerConfig, Pool, RecyclingMethod, Timeouts};
use serde::Deserialize;
use serde_json::json;
use tokio::io::{AsyncReadExt, AsyncWriteExt, DuplexStream};
use tokio_postgres::types::Type;
use tokio_postgres::NoTls;

use crate::common::{PathRec, PathResult};

#[derive(Clone, Debug, Deserialize)]
pub struct Cfg {
    pub max_size: usize,
    pub method: String,
    /// after the path: that many clients of a second pool (same manager type) are taken at the same moment,
    /// `stress_rounds` times; the registry must end up empty each time
    #[serde(default)]
    pub stress: usize,
    #[serde(default)]
    pub stress_rounds: usize,
}

#[derive(Clone, Debug, Deserialize)]
pub struct Post {
    pub idle: Vec<u32>,
    pub size: usize,
    pub held: Vec<u32>,
    pub taken: Vec<u32>,
    pub nq: Vec<u64>,
    pub parses: Vec<Vec<String>>,
    pub cache: Vec<Vec<String>>,
}

const CUSTOM_SQL: &str = "SELECT 'custom recycle check'";

fn method_of(m: &str) -> RecyclingMethod {
    match m {
        "verified" => RecyclingMethod::Verified,
        "clean" => RecyclingMethod::Clean,
        "custom" => RecyclingMethod::Custom(CUSTOM_SQL.into()),
        _ => RecyclingMethod::Fast,
    }
}

fn key_parts(k: &str) -> (&'static str, Vec<Type>) {
    match k {
        "p:int4" => ("SELECT $1", vec![Type::INT4]),
        "p:text" => ("SELECT $1", vec![Type::TEXT]),
        "b" => ("SELECT 2", vec![]),
        _ => ("SELECT 1", vec![]),
    }
}
fn key_of(query: &str, oids: &[u32]) -> String {
    match (query, oids) {
        ("SELECT $1", [23]) => "p:int4".into(),
        ("SELECT $1", [25]) => "p:text".into(),
        ("SELECT 2", _) => "b".into(),
        ("SELECT 1", _) => "a".into(),
        _ => format!("?{}{:?}", query, oids),
    }
}

#[derive(Default)]
struct ConnLog {
    queries: Vec<String>,
    /// transaction control statements (BEGIN / SAVEPOINT / RELEASE / COMMIT / ROLLBACK), in order
    txq: Vec<String>,
    parses: Vec<String>,
    msgs: usize,
    kill: Option<tokio::sync::oneshot::Sender<()>>,
    /// the server answered a recycle query of this connection with an error (or hung up on it):
    /// the check failed, whatever the manager makes of the answer
    failed_check: bool,
}
#[derive(Default)]
struct Srv {
    conns: Vec<ConnLog>,
    plan: VecDeque<String>,
}

fn msg(tag: u8, body: &[u8]) -> Vec<u8> {
    let mut v = vec![tag];
    v.extend_from_slice(&((body.len() as i32 + 4).to_be_bytes()));
    v.extend_from_slice(body);
    v
}
fn cstr(b: &[u8], from: usize) -> (String, usize) {
    let end = b[from..].iter().position(|x| *x == 0).map(|p| from + p).unwrap_or(b.len());
    (String::from_utf8_lossy(&b[from..end]).to_string(), end + 1)
}

async fn serve(mut s: DuplexStream, ix: usize, srv: Arc<Mutex<Srv>>, mut kill: tokio::sync::oneshot::Receiver<()>) {
    // startup
    let mut lenb = [0u8; 4];
    if s.read_exact(&mut lenb).await.is_err() {
        return;
    }
    let len = i32::from_be_bytes(lenb) as usize;
    let mut rest = vec![0u8; len.saturating_sub(4)];
    if s.read_exact(&mut rest).await.is_err() {
        return;
    }
    let mut out = msg(b'R', &0i32.to_be_bytes());
    for (k, v) in [("client_encoding", "UTF8"), ("server_version", "14.0"), ("integer_datetimes", "on"), ("standard_conforming_strings", "on")] {
        let mut b = k.as_bytes().to_vec();
        b.push(0);
        b.extend_from_slice(v.as_bytes());
        b.push(0);
        out.extend(msg(b'S', &b));
    }
    out.extend(msg(b'K', &[0, 0, 0, 1, 0, 0, 0, 2]));
    out.extend(msg(b'Z', b"I"));
    if s.write_all(&out).await.is_err() {
        return;
    }
    let mut pending: Vec<u8> = vec![];
    let mut last_oids: Vec<u32> = vec![];
    let mut last_query = String::new();
    loop {
        let mut head = [0u8; 5];
        tokio::select! {
            r = s.read_exact(&mut head) => { if r.is_err() { return; } }
            _ = &mut kill => { return; }
        }
        let tag = head[0];
        let len = i32::from_be_bytes([head[1], head[2], head[3], head[4]]) as usize;
        let mut body = vec![0u8; len.saturating_sub(4)];
        if s.read_exact(&mut body).await.is_err() {
            return;
        }
        srv.lock().unwrap().conns[ix].msgs += 1;
        match tag {
            b'Q' => {
                let (sql, _) = cstr(&body, 0);
                let up = sql.trim().to_uppercase();
                let is_tx = ["BEGIN", "START TRANSACTION", "COMMIT", "ROLLBACK", "SAVEPOINT", "RELEASE"].iter().any(|k| up.starts_with(k));
                let mode = {
                    let mut g = srv.lock().unwrap();
                    if is_tx {
                        // transaction control of the caller: not a recycle query, always succeeds
                        g.conns[ix].txq.push(up.clone());
                        "ok".to_string()
                    } else {
                        g.conns[ix].queries.push(sql.clone());
                        let m = g.plan.pop_front().unwrap_or_else(|| "ok".into());
                        if m == "error" || m == "disconnect" {
                            g.conns[ix].failed_check = true;
                        }
                        m
                    }
                };
                let mut out = vec![];
                match mode.as_str() {
                    "error" => {
                        let mut b = vec![];
                        for (f, v) in [(b'S', "ERROR"), (b'C', "XX000"), (b'M', "scripted failure")] {
                            b.push(f);
                            b.extend_from_slice(v.as_bytes());
                            b.push(0);
                        }
                        b.push(0);
                        out.extend(msg(b'E', &b));
                        out.extend(msg(b'Z', b"I"));
                    }
                    "disconnect" => return,
                    _ => {
                        if sql.trim().is_empty() {
                            out.extend(msg(b'I', &[]));
                        } else {
                            out.extend(msg(b'C', b"OK\0"));
                        }
                        out.extend(msg(b'Z', b"I"));
                    }
                }
                if s.write_all(&out).await.is_err() {
                    return;
                }
            }
            b'P' => {
                let (_name, p1) = cstr(&body, 0);
                let (query, p2) = cstr(&body, p1);
                let n = i16::from_be_bytes([body[p2], body[p2 + 1]]) as usize;
                let mut oids = vec![];
                for i in 0..n {
                    let o = p2 + 2 + 4 * i;
                    oids.push(u32::from_be_bytes([body[o], body[o + 1], body[o + 2], body[o + 3]]));
                }
                if oids.is_empty() && query.contains("$1") {
                    oids.push(25);
                }
                srv.lock().unwrap().conns[ix].parses.push(key_of(&query, &oids));
                last_oids = oids;
                last_query = query;
                pending.extend(msg(b'1', &[]));
            }
            b'D' => {
                let mut b = (last_oids.len() as i16).to_be_bytes().to_vec();
                for o in &last_oids {
                    b.extend_from_slice(&o.to_be_bytes());
                }
                pending.extend(msg(b't', &b));
                pending.extend(msg(b'n', &[]));
                let _ = &last_query;
            }
            b'C' => pending.extend(msg(b'3', &[])),
            b'S' => {
                pending.extend(msg(b'Z', b"I"));
                let out = std::mem::take(&mut pending);
                if s.write_all(&out).await.is_err() {
                    return;
                }
            }
            b'X' => return,
            _ => {}
        }
    }
}

struct DuplexConnect {
    srv: Arc<Mutex<Srv>>,
}
impl deadpool_postgres::Connect for DuplexConnect {
    fn connect(
        &self,
        pg_config: &tokio_postgres::Config,
    ) -> std::pin::Pin<Box<dyn std::future::Future<Output = Result<(tokio_postgres::Client, tokio::task::JoinHandle<()>), tokio_postgres::Error>> + Send + '_>> {
        let cfg = pg_config.clone();
        let srv = self.srv.clone();
        Box::pin(async move {
            let (a, b) = tokio::io::duplex(1 << 16);
            let (ktx, krx) = tokio::sync::oneshot::channel();
            let ix = {
                let mut g = srv.lock().unwrap();
                g.conns.push(ConnLog { kill: Some(ktx), ..Default::default() });
                g.conns.len() - 1
            };
            tokio::spawn(serve(b, ix, srv.clone(), krx));
            let (client, connection) = cfg.connect_raw(a, NoTls).await?;
            let h = tokio::spawn(async move {
                let _ = connection.await;
            });
            Ok((client, h))
        })
    }
}

struct World {
    pool: Pool,
    srv: Arc<Mutex<Srv>>,
    held: BTreeMap<u32, Client>,
    taken: BTreeMap<u32, ClientWrapper>,
    ids: BTreeMap<Instant, u32>,
    last_get: String,
    /// the harness's own idea of what each client's cache holds
    keys: BTreeMap<u32, BTreeSet<String>>,
    facts: BTreeMap<&'static str, usize>,
}

impl World {
    fn bump(&mut self, k: &'static str) {
        *self.facts.entry(k).or_insert(0) += 1;
    }
    async fn get(&mut self, plan: Vec<String>) {
        self.srv.lock().unwrap().plan = plan.into();
        let to = Timeouts { wait: Some(Duration::ZERO), create: None, recycle: None };
        match tokio::time::timeout(Duration::from_secs(3), self.pool.timeout_get(&to)).await {
            Ok(Ok(c)) => {
                let k = deadpool_postgres::Client::metrics(&c).created;
                let n = self.ids.len() as u32 + 1;
                let id = *self.ids.entry(k).or_insert(n);
                self.last_get = format!("ok{}", id);
                if c.is_closed() {
                    self.bump("closed_handout");
                }
                // (connection k of the scripted server is client k: every create of this harness ends in a hand-out)
                if self.srv.lock().unwrap().conns.get(id as usize - 1).map_or(false, |c| c.failed_check) {
                    self.bump("failed_handout");
                }
                self.held.insert(id, c);
            }
            Ok(Err(deadpool_postgres::PoolError::Timeout(_))) => self.last_get = "timeout".into(),
            Ok(Err(e)) => self.last_get = format!("error:{:?}", e).chars().take(60).collect(),
            Err(_) => self.last_get = "hang".into(),
        }
        self.srv.lock().unwrap().plan.clear();
    }
}

async fn via_generic<C: deadpool_postgres::GenericClient>(c: &C, q: &str) -> Result<tokio_postgres::Statement, tokio_postgres::Error> {
    c.prepare_cached(q).await
}
async fn via_generic_typed<C: deadpool_postgres::GenericClient>(c: &C, q: &str, types: &[Type]) -> Result<tokio_postgres::Statement, tokio_postgres::Error> {
    c.prepare_typed_cached(q, types).await
}

/// Another thread sits inside the registry (Debug-printing a Mutex holds its lock while the data is
/// written, and the writer parks there); the given clients are taken by one thread each, which has to wait
/// for the registry.  The step goes on once the kernel reports every taker asleep (or finished: code that
/// does not wait) - no timing involved - then the registry is released and the takers race.
fn take_while_registry_busy(w: &mut World, cs: &[u32]) {
    let clients: Vec<(u32, Client)> = cs.iter().filter_map(|c| w.held.remove(c).map(|o| (*c, o))).collect();
    if clients.is_empty() {
        return;
    }
    let gate = std::sync::Arc::new((Mutex::new((false, false)), std::sync::Condvar::new()));
    struct ParkWriter(std::sync::Arc<(Mutex<(bool, bool)>, std::sync::Condvar)>);
    impl std::fmt::Write for ParkWriter {
        fn write_str(&mut self, s: &str) -> std::fmt::Result {
            if s.contains("data") {
                let (m, cv) = &*self.0;
                let mut g = m.lock().unwrap();
                g.0 = true;
                cv.notify_all();
                while !g.1 {
                    g = cv.wait(g).unwrap();
                }
            }
            Ok(())
        }
    }
    let pool2 = w.pool.clone();
    let g2 = gate.clone();
    let printer = std::thread::spawn(move || {
        use std::fmt::Write;
        let mut pw = ParkWriter(g2);
        let _ = write!(pw, "{:?}", pool2.manager().statement_caches);
    });
    {
        let (m, cv) = &*gate;
        let mut g = m.lock().unwrap();
        let t0 = Instant::now();
        while !g.0 && t0.elapsed() < Duration::from_secs(2) {
            g = cv.wait_timeout(g, Duration::from_millis(50)).unwrap().0;
        }
    }
    let mut takers = vec![];
    for (id, c) in clients {
        let (tid_tx, tid_rx) = std::sync::mpsc::channel::<String>();
        let h = std::thread::spawn(move || {
            let me = std::fs::read_link("/proc/thread-self").map(|p| p.to_string_lossy().to_string()).unwrap_or_default();
            let _ = tid_tx.send(me);
            Client::take(c)
        });
        let me = tid_rx.recv_timeout(Duration::from_secs(2)).unwrap_or_default();
        takers.push((id, h, me));
    }
    for (_, h, me) in &takers {
        let t0 = Instant::now();
        let mut asleep = 0;
        while !h.is_finished() && asleep < 3 && t0.elapsed() < Duration::from_secs(2) {
            let st = std::fs::read_to_string(format!("/proc/{}/stat", me)).unwrap_or_default();
            // "pid (comm) S ..." : the state letter follows the closing parenthesis
            let state = st.rsplit(')').next().and_then(|r| r.trim_start().chars().next()).unwrap_or('?');
            if state == 'S' {
                asleep += 1;
            } else {
                asleep = 0;
            }
            std::thread::sleep(Duration::from_micros(300));
        }
    }
    {
        let (m, cv) = &*gate;
        m.lock().unwrap().1 = true;
        cv.notify_all();
    }
    let _ = printer.join();
    for (id, h, _) in takers {
        match h.join() {
            Ok(cw) => {
                w.taken.insert(id, cw);
            }
            // (a take that panics is a fact the monitor hears about)
            Err(_) => w.bump("bad_prepare"),
        }
    }
}

pub fn run_path(cfg: &Cfg, path: &PathRec<Post>, record: bool) -> (PathResult, Vec<String>) {
    let mut res = PathResult { id: path.id, conform: true, ..Default::default() };
    let mut lines = vec![];
    let srv: Arc<Mutex<Srv>> = Arc::new(Mutex::new(Srv::default()));
    // one thread only: the server and connection tasks run only while the driver awaits, which makes
    // the interleaving of two joined prepare calls deterministic
    let rt = tokio::runtime::Builder::new_current_thread().enable_all().build().unwrap();
    rt.block_on(async {
        let mut pgc = tokio_postgres::Config::new();
        pgc.user("u").dbname("db");
        let mgr = Manager::from_connect(pgc, DuplexConnect { srv: srv.clone() }, ManagerConfig { recycling_method: method_of(&cfg.method) });
        let pool = Pool::builder(mgr).max_size(cfg.max_size).build().unwrap();
        let mut w = World { pool, srv: srv.clone(), held: BTreeMap::new(), taken: BTreeMap::new(), ids: BTreeMap::new(), last_get: "-".into(), keys: BTreeMap::new(), facts: BTreeMap::new() };
        // what each recycling method is documented to send, written down here (not asked of the crate):
        // Clean = DISCARD ALL without DEALLOCATE ALL / DISCARD PLAN, so that the statement cache stays valid
        let norm = |sql: &str| -> Vec<String> { sql.split(';').map(|p| p.split_whitespace().collect::<Vec<_>>().join(" ")).filter(|p| !p.is_empty()).collect() };
        let expect_sql: Option<Vec<String>> = match cfg.method.as_str() {
            "verified" => Some(vec![]),
            "clean" => Some(
                ["CLOSE ALL", "SET SESSION AUTHORIZATION DEFAULT", "RESET ALL", "UNLISTEN *", "SELECT pg_advisory_unlock_all()", "DISCARD TEMP", "DISCARD SEQUENCES"]
                    .iter()
                    .map(|s| s.to_string())
                    .collect(),
            ),
            "custom" => Some(norm(CUSTOM_SQL)),
            _ => None,
        };
        let mut n = 0usize;
        let ev = |w: &World, n: usize, k: &str, act: &str, probe: i64| -> String {
            let st = w.pool.status();
            let s = w.srv.lock().unwrap();
            let bad_q = s.conns.iter().flat_map(|c| c.queries.iter()).filter(|q| Some(norm(q.as_str())) != expect_sql).count();
            // size() of every client we can look at against the harness's own key set
            let mut bad_size = 0;
            for (id, c) in w.held.iter() {
                if c.statement_cache.size() != w.keys.get(id).map(|k| k.len()).unwrap_or(0) {
                    bad_size += 1;
                }
            }
            for (id, c) in w.taken.iter() {
                if c.statement_cache.size() != w.keys.get(id).map(|k| k.len()).unwrap_or(0) {
                    bad_size += 1;
                }
            }
            json!({"run": path.id, "i": n, "k": k, "act": act, "size": st.size, "avail": st.available, "max": cfg.max_size,
                   "last_get": w.last_get, "closed_handout": w.facts.get("closed_handout").unwrap_or(&0),
                   "failed_handout": w.facts.get("failed_handout").unwrap_or(&0),
                   "bad_q": bad_q, "bad_prepare": w.facts.get("bad_prepare").unwrap_or(&0), "bad_size": bad_size,
                   // entries of the registry, read off its Debug output (one "(Weak)" per registered cache)
                   "reg_n": format!("{:?}", w.pool.manager().statement_caches).matches("(Weak)").count(),
                   "nqueries": s.conns.iter().map(|c| c.queries.len()).sum::<usize>(), "fast": expect_sql.is_none(), "probe_got": probe})
            .to_string()
        };
        if record {
            lines.push(ev(&w, n, "begin", "-", -1));
        }
        let mut prev_held: Vec<u32> = vec![];
        for (si, st) in path.steps.iter().enumerate() {
            res.steps = si + 1;
            let arg_c = st.x.first().and_then(|v| v.as_u64()).unwrap_or(0) as u32;
            match st.a.as_str() {
                "Get" => {
                    let plan: Vec<String> = st.x.first().and_then(|v| v.as_array()).map(|a| a.iter().filter_map(|x| x.as_str().map(|s| s.to_string())).collect()).unwrap_or_default();
                    w.get(plan).await;
                }
                "Drop" => {
                    let k = w.srv.lock().unwrap().conns.get_mut((arg_c - 1) as usize).and_then(|c| c.kill.take());
                    if let Some(k) = k {
                        let _ = k.send(());
                    }
                    // let the client's connection task notice
                    for _ in 0..50 {
                        tokio::time::sleep(Duration::from_micros(300)).await;
                        let seen = w.held.get(&arg_c).map(|c| c.is_closed()).or_else(|| w.taken.get(&arg_c).map(|c| c.is_closed()));
                        if seen == Some(true) {
                            break;
                        }
                    }
                    tokio::time::sleep(Duration::from_millis(1)).await;
                }
                "Prepare" | "PrepareG" => {
                    let key = st.x.get(1).and_then(|v| v.as_str()).unwrap_or("a").to_string();
                    let (q, types) = key_parts(&key);
                    let before = { let s = w.srv.lock().unwrap(); (s.conns[(arg_c - 1) as usize].msgs, s.conns[(arg_c - 1) as usize].parses.len(), s.conns.iter().map(|c| c.msgs).sum::<usize>(), s.conns.iter().map(|c| c.parses.len()).sum::<usize>()) };
                    let hit_expected = w.keys.get(&arg_c).map(|k| k.contains(&key)).unwrap_or(false);
                    let generic = st.a == "PrepareG";
                    let r = if let (true, Some(c)) = (generic, w.held.get(&arg_c)) {
                        // (GenericClient is implemented for the pooled `Client`, i.e. Object<Manager>)
                        let cl: &Client = c;
                        Some(if types.is_empty() { via_generic(cl, q).await } else { via_generic_typed(cl, q, &types).await })
                    } else if let Some(c) = w.held.get(&arg_c) {
                        Some(if types.is_empty() { c.prepare_cached(q).await } else { c.prepare_typed_cached(q, &types).await })
                    } else if let Some(c) = w.taken.get(&arg_c) {
                        Some(if types.is_empty() { c.prepare_cached(q).await } else { c.prepare_typed_cached(q, &types).await })
                    } else {
                        None
                    };
                    let after = { let s = w.srv.lock().unwrap(); (s.conns[(arg_c - 1) as usize].msgs, s.conns[(arg_c - 1) as usize].parses.clone(), s.conns.iter().map(|c| c.msgs).sum::<usize>()) };
                    match r {
                        Some(Ok(stmt)) => {
                            let types_ok = stmt.params().iter().map(|t| t.oid()).collect::<Vec<_>>() == types.iter().map(|t| t.oid()).collect::<Vec<_>>();
                            let parses_all_before = before.3;
                            let parses_all_after: usize = { let s = w.srv.lock().unwrap(); s.conns.iter().map(|c| c.parses.len()).sum() };
                            let ok = if hit_expected {
                                // a hit: nothing is prepared anywhere (the only frontend traffic a hit may coincide
                                // with is the deferred Close of a statement displaced earlier)
                                parses_all_after == parses_all_before
                            } else {
                                // a miss: exactly one Parse, on this connection, for exactly this text and these types
                                after.1.len() == before.1 + 1 && after.1.last() == Some(&key) && parses_all_after == parses_all_before + 1
                            };
                            if !(ok && types_ok) {
                                w.bump("bad_prepare");
                            }
                            w.keys.entry(arg_c).or_default().insert(key);
                        }
                        Some(Err(_)) => w.bump("bad_prepare"),
                        None => {}
                    }
                }
                "TxPrepare" => {
                    // the same through deadpool_postgres::Transaction (depth 2: a nested transaction / savepoint):
                    // the wrapper shares the client's statement cache
                    let key = st.x.get(1).and_then(|v| v.as_str()).unwrap_or("a").to_string();
                    let depth = st.x.get(2).and_then(|v| v.as_u64()).unwrap_or(1);
                    let (q, types) = key_parts(&key);
                    let hit_expected = w.keys.get(&arg_c).map(|k| k.contains(&key)).unwrap_or(false);
                    let before = { let s = w.srv.lock().unwrap(); (s.conns[(arg_c - 1) as usize].parses.len(), s.conns.iter().map(|c| c.parses.len()).sum::<usize>(), s.conns[(arg_c - 1) as usize].txq.len()) };
                    let mut outcome: Option<bool> = None;
                    if let Some(c) = w.held.get_mut(&arg_c) {
                        let cw: &mut ClientWrapper = &mut *c;
                        match cw.transaction().await {
                            Ok(mut tx) => {
                                let r = if depth == 2 {
                                    match tx.transaction().await {
                                        Ok(inner) => {
                                            let r = if types.is_empty() { inner.prepare_cached(q).await } else { inner.prepare_typed_cached(q, &types).await };
                                            let c = inner.commit().await;
                                            r.map(|s| (s, c.is_ok()))
                                        }
                                        Err(e) => Err(e),
                                    }
                                } else if depth == 3 {
                                    // through the GenericClient trait, as code that is generic over client / transaction does
                                    let r = if types.is_empty() { via_generic(&tx, q).await } else { via_generic_typed(&tx, q, &types).await };
                                    r.map(|s| (s, true))
                                } else {
                                    let r = if types.is_empty() { tx.prepare_cached(q).await } else { tx.prepare_typed_cached(q, &types).await };
                                    r.map(|s| (s, true))
                                };
                                let committed = tx.commit().await.is_ok();
                                outcome = Some(match r {
                                    Ok((stmt, inner_ok)) => {
                                        inner_ok && committed && stmt.params().iter().map(|t| t.oid()).collect::<Vec<_>>() == types.iter().map(|t| t.oid()).collect::<Vec<_>>()
                                    }
                                    Err(_) => false,
                                });
                            }
                            Err(_) => outcome = Some(false),
                        }
                    }
                    if let Some(ok) = outcome {
                        let s = w.srv.lock().unwrap();
                        let conn = &s.conns[(arg_c - 1) as usize];
                        let all: usize = s.conns.iter().map(|c| c.parses.len()).sum();
                        let parses_ok = if hit_expected { all == before.1 } else { conn.parses.len() == before.0 + 1 && conn.parses.last() == Some(&key) && all == before.1 + 1 };
                        // BEGIN .. COMMIT (and SAVEPOINT .. RELEASE inside) reached the server on this very connection
                        let tx_ok = conn.txq.len() == before.2 + if depth == 2 { 4 } else { 2 };
                        drop(s);
                        if !(ok && parses_ok && tx_ok) {
                            w.bump("bad_prepare");
                        }
                        w.keys.entry(arg_c).or_default().insert(key);
                    }
                }
                "PrepareJoin" => {
                    let key = st.x.get(1).and_then(|v| v.as_str()).unwrap_or("a").to_string();
                    let (q, types) = key_parts(&key);
                    let c: Option<&ClientWrapper> = w.held.get(&arg_c).map(|c| &**c).or_else(|| w.taken.get(&arg_c));
                    if let Some(c) = c {
                        let (r1, r2) = if types.is_empty() {
                            tokio::join!(c.prepare_cached(q), c.prepare_cached(q))
                        } else {
                            tokio::join!(c.prepare_typed_cached(q, &types), c.prepare_typed_cached(q, &types))
                        };
                        if r1.is_err() || r2.is_err() {
                            w.bump("bad_prepare");
                        }
                        w.keys.entry(arg_c).or_default().insert(key);
                    }
                }
                "Clear" => {
                    w.pool.manager().statement_caches.clear();
                    let owned: Vec<u32> = w.keys.keys().filter(|c| !w.taken.contains_key(c)).copied().collect();
                    for c in owned {
                        w.keys.insert(c, BTreeSet::new());
                    }
                }
                "Remove" => {
                    let key = st.x.first().and_then(|v| v.as_str()).unwrap_or("a").to_string();
                    let (q, types) = key_parts(&key);
                    w.pool.manager().statement_caches.remove(q, &types);
                    let owned: Vec<u32> = w.keys.keys().filter(|c| !w.taken.contains_key(c)).copied().collect();
                    for c in owned {
                        w.keys.get_mut(&c).unwrap().remove(&key);
                    }
                }
                "Return" => {
                    drop(w.held.remove(&arg_c));
                }
                "Take" => {
                    if let Some(c) = w.held.remove(&arg_c) {
                        w.taken.insert(arg_c, Client::take(c));
                    }
                }
                "TakeBusy" => {
                    take_while_registry_busy(&mut w, &[arg_c]);
                }
                "TakeBoth" => {
                    // two clients are taken by two threads at the same moment (both wait for the registry, then race)
                    let c2 = st.x.get(1).and_then(|v| v.as_u64()).unwrap_or(0) as u32;
                    take_while_registry_busy(&mut w, &[arg_c, c2]);
                }
                _ => {}
            }
            n += 1;
            if record {
                lines.push(ev(&w, n, "step", &st.a, -1));
            }
            if res.conform {
                if let Some(p) = &st.post {
                    let mut d = vec![];
                    let st_ = w.pool.status();
                    let held: Vec<u32> = w.held.keys().copied().collect();
                    if held != p.held {
                        d.push(format!("held: code {:?} model {:?}", held, p.held));
                    }
                    if st_.size != p.size {
                        d.push(format!("status.size: code {} model {}", st_.size, p.size));
                    }
                    if st_.available != p.idle.len() {
                        d.push(format!("status.available: code {} model {}", st_.available, p.idle.len()));
                    }
                    {
                        let s = w.srv.lock().unwrap();
                        for (i, c) in s.conns.iter().enumerate() {
                            if Some(&(c.queries.len() as u64)) != p.nq.get(i) {
                                d.push(format!("simple queries received on connection {}: code {} model {:?}", i + 1, c.queries.len(), p.nq.get(i)));
                            }
                            if Some(&c.parses) != p.parses.get(i) {
                                d.push(format!("Parse messages on connection {}: code {:?} model {:?}", i + 1, c.parses, p.parses.get(i)));
                            }
                        }
                    }
                    for (id, c) in w.held.iter().map(|(i, c)| (*i, c.statement_cache.size())).chain(w.taken.iter().map(|(i, c)| (*i, c.statement_cache.size()))) {
                        let want = p.cache.get((id - 1) as usize).map(|k| k.len()).unwrap_or(0);
                        if c != want {
                            d.push(format!("statement cache size of client {}: code {} model {}", id, c, want));
                        }
                    }
                    if st.a == "Get" {
                        let newly: Vec<u32> = p.held.iter().filter(|c| !prev_held.contains(c)).copied().collect();
                        let want = newly.first().map(|c| format!("ok{}", c)).unwrap_or_else(|| "timeout".into());
                        if w.last_get != want {
                            d.push(format!("get result: code {} model {}", w.last_get, want));
                        }
                    }
                    if !d.is_empty() {
                        res.conform = false;
                        res.div_step = Some(si);
                        res.div_action = Some(format!("{}({})", st.a, st.x.iter().map(|v| v.to_string()).collect::<Vec<_>>().join(",")));
                        res.div_what = d;
                    }
                    prev_held = p.held.clone();
                }
            }
        }
        w.held.clear();
        let mut got = 0;
        let mut keep = vec![];
        loop {
            w.get(vec![]).await;
            if !w.last_get.starts_with("ok") || got > cfg.max_size + 2 {
                break;
            }
            got += 1;
            let ids: Vec<u32> = w.held.keys().copied().collect();
            for id in ids {
                keep.push((id, w.held.remove(&id).unwrap()));
            }
        }
        n += 1;
        if record {
            lines.push(ev(&w, n, "probe", "Probe", got as i64));
        }
        // second half of the probe: everything the pool handed out is taken at the same moment by one thread
        // per client, all of them waiting for the registry first; afterwards the registry must be empty
        if keep.len() >= 2 {
            for (id, c) in keep.drain(..) {
                w.held.insert(id, c);
            }
            let ids: Vec<u32> = w.held.keys().copied().collect();
            take_while_registry_busy(&mut w, &ids);
            n += 1;
            if record {
                lines.push(ev(&w, n, "probe2", "TakeAll", got as i64));
            }
        }
        drop(keep);
        // TakeAll at a larger constant than the model enumerates: the effect is the same (nothing stays registered)
        for _round in 0..(if cfg.stress >= 2 { cfg.stress_rounds.max(1) } else { 0 }) {
            let mut pgc = tokio_postgres::Config::new();
            pgc.user("u").dbname("db");
            let srv2: Arc<Mutex<Srv>> = Arc::new(Mutex::new(Srv::default()));
            let mgr = Manager::from_connect(pgc, DuplexConnect { srv: srv2.clone() }, ManagerConfig { recycling_method: method_of(&cfg.method) });
            let pool = Pool::builder(mgr).max_size(cfg.stress).build().unwrap();
            let mut w2 = World { pool, srv: srv2, held: BTreeMap::new(), taken: BTreeMap::new(), ids: BTreeMap::new(), last_get: "-".into(), keys: BTreeMap::new(), facts: BTreeMap::new() };
            let mut all = vec![];
            for _ in 0..cfg.stress {
                w2.get(vec![]).await;
                let ids: Vec<u32> = w2.held.keys().copied().collect();
                for id in ids {
                    all.push((id, w2.held.remove(&id).unwrap()));
                }
            }
            // three of four clients are taken, the rest stays checked out
            let mut kept = vec![];
            for (i, (id, c)) in all.into_iter().enumerate() {
                if i % 4 != 3 {
                    w2.held.insert(id, c);
                } else {
                    kept.push(c);
                }
            }
            // (no gate here: the takers leave a barrier together and run in parallel on several cores)
            let ids: Vec<u32> = w2.held.keys().copied().collect();
            let barrier = Arc::new(std::sync::Barrier::new(ids.len()));
            let mut hs = vec![];
            for id in ids {
                let c = w2.held.remove(&id).unwrap();
                let b = barrier.clone();
                hs.push((id, std::thread::spawn(move || {
                    b.wait();
                    Client::take(c)
                })));
            }
            for (id, h) in hs {
                match h.join() {
                    Ok(cw) => {
                        w2.taken.insert(id, cw);
                    }
                    Err(_) => w2.bump("bad_prepare"),
                }
            }
            let reg_n = format!("{:?}", w2.pool.manager().statement_caches).matches("(Weak)").count();
            let panics = *w2.facts.get("bad_prepare").unwrap_or(&0);
            n += 1;
            if record {
                let st = w2.pool.status();
                lines.push(
                    json!({"run": path.id, "i": n, "k": "stress", "act": "TakeAll", "size": st.size, "avail": st.available, "max": cfg.stress,
                           "last_get": "-", "closed_handout": 0, "failed_handout": 0, "bad_q": 0, "bad_prepare": panics, "bad_size": 0, "reg_n": reg_n,
                           "nqueries": 0, "fast": true, "probe_got": -1})
                    .to_string(),
                );
            }
            drop(kept);
        }
    });
    rt.shutdown_background();
    (res, lines)
}
