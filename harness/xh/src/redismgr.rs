//! C17: histories of spec/RedisManager.tla driven on the real deadpool-redis pool against a
//! scripted RESP2 server on a loopback socket.

use std::collections::{BTreeMap, VecDeque};
use std::io::{BufRead, BufReader, Read, Write};
use std::net::{TcpListener, TcpStream};
use std::sync::{Arc, Mutex};
use std::time::Duration;

use deadpool_redis::{Config, Connection, Pool, PoolConfig, Runtime, Timeouts};
use serde::Deserialize;
use serde_json::json;

use crate::common::{PathRec, PathResult};

#[derive(Clone, Debug, Deserialize)]
pub struct Cfg {
    pub max_size: usize,
}

#[derive(Clone, Debug, Deserialize)]
pub struct Post {
    pub idle: Vec<u32>,
    pub size: usize,
    pub held: Vec<u32>,
    pub pn: u64,
    pub watching: Vec<bool>,
    #[serde(rename = "lastPings")]
    pub last_pings: Vec<u64>,
}

#[derive(Default)]
struct ConnLog {
    cmds: Vec<(String, Vec<String>)>,
    watching: bool,
    last_reply: String,
}
#[derive(Default)]
struct Srv {
    conns: Vec<ConnLog>,
    plan: VecDeque<String>,
    pings: Vec<(usize, String)>,
    dup_pings: usize,
}

fn read_cmd(r: &mut BufReader<TcpStream>) -> Option<Vec<String>> {
    let mut line = String::new();
    if r.read_line(&mut line).ok()? == 0 {
        return None;
    }
    let line = line.trim_end();
    if !line.starts_with('*') {
        return Some(line.split_whitespace().map(|s| s.to_string()).collect());
    }
    let n: usize = line[1..].parse().ok()?;
    let mut out = vec![];
    for _ in 0..n {
        let mut l = String::new();
        r.read_line(&mut l).ok()?;
        let len: usize = l.trim_end().trim_start_matches('$').parse().ok()?;
        let mut buf = vec![0u8; len + 2];
        r.read_exact(&mut buf).ok()?;
        out.push(String::from_utf8_lossy(&buf[..len]).to_string());
    }
    Some(out)
}

fn serve(stream: TcpStream, ix: usize, srv: Arc<Mutex<Srv>>) {
    let mut w = stream.try_clone().unwrap();
    let mut r = BufReader::new(stream);
    while let Some(cmd) = read_cmd(&mut r) {
        if cmd.is_empty() {
            continue;
        }
        let name = cmd[0].to_uppercase();
        let args: Vec<String> = cmd[1..].to_vec();
        let mut reply: Option<Vec<u8>> = Some(b"+OK\r\n".to_vec());
        {
            let mut s = srv.lock().unwrap();
            s.conns[ix].cmds.push((name.clone(), args.clone()));
            match name.as_str() {
                "WATCH" => s.conns[ix].watching = true,
                "UNWATCH" => s.conns[ix].watching = false,
                "PING" => {
                    let v = args.first().cloned().unwrap_or_default();
                    if s.pings.iter().any(|(_, x)| *x == v) {
                        s.dup_pings += 1;
                    }
                    let prev = s.pings.last().map(|(_, x)| x.clone()).unwrap_or_else(|| "earlier".into());
                    s.pings.push((ix, v.clone()));
                    let mode = s.plan.pop_front().unwrap_or_else(|| "right".into());
                    s.conns[ix].last_reply = mode.clone();
                    let bulk = |x: &str| format!("${}\r\n{}\r\n", x.len(), x).into_bytes();
                    reply = match mode.as_str() {
                        "right" => Some(bulk(&v)),
                        "stale" => Some(bulk(&prev)),
                        "wrong" => Some(bulk("bogus")),
                        "error" => Some(b"-ERR scripted failure\r\n".to_vec()),
                        // no reply at all (the connection stays open): the pool's recycle timeout has to end the wait
                        "stall" => Some(vec![]),
                        _ => None, // disconnect
                    };
                }
                _ => {}
            }
        }
        match reply {
            Some(b) => {
                if w.write_all(&b).is_err() {
                    break;
                }
            }
            None => {
                let _ = w.shutdown(std::net::Shutdown::Both);
                break;
            }
        }
    }
}

struct World {
    pool: Pool,
    srv: Arc<Mutex<Srv>>,
    held: BTreeMap<u32, Connection>,
    tags: usize,
    known: u32,
    last_get: String,
    returned_at: BTreeMap<u32, usize>,
    /// facts about hand-outs of reused connections, judged by the monitor
    reuse_facts: Vec<serde_json::Value>,
    /// connections taken out of the pool for good, with the length of their server log at that moment
    taken: BTreeMap<u32, usize>,
    taken_reissued: usize,
    take_size_bad: usize,
    kept: Vec<redis::aio::MultiplexedConnection>,
}

impl World {
    /// which server-side connection is this?  (an ECHO with a unique tag shows up in its log)
    async fn id_of(&mut self, c: &mut Connection) -> u32 {
        self.tags += 1;
        let tag = format!("whoami-{}", self.tags);
        let _: Result<String, _> = tokio::time::timeout(Duration::from_secs(2), redis::cmd("ECHO").arg(&tag).query_async(&mut **c))
            .await
            .unwrap_or(Ok(String::new()));
        let s = self.srv.lock().unwrap();
        for (i, cl) in s.conns.iter().enumerate() {
            if cl.cmds.iter().rev().take(3).any(|(n, a)| n == "ECHO" && a.first() == Some(&tag)) {
                return i as u32 + 1;
            }
        }
        0
    }
    async fn get(&mut self, plan: Vec<String>) {
        {
            let mut s = self.srv.lock().unwrap();
            s.plan = plan.into();
        }
        let known = self.known;
        // never wait for a slot; the pool's own recycle timeout stays in force
        let mut to: Timeouts = self.pool.timeouts();
        to.wait = Some(Duration::ZERO);
        let r = tokio::time::timeout(Duration::from_secs(3), self.pool.timeout_get(&to)).await;
        match r {
            Ok(Ok(mut c)) => {
                // facts about the recycle must be read before the identification ECHO
                let pre: Vec<(usize, String, bool)> = {
                    let s = self.srv.lock().unwrap();
                    s.conns.iter().map(|cl| (cl.cmds.len(), cl.last_reply.clone(), cl.watching)).collect()
                };
                let id = self.id_of(&mut c).await;
                self.last_get = format!("ok{}", id);
                if self.taken.contains_key(&id) {
                    self.taken_reissued += 1;
                }
                self.known = self.known.max(id);
                let _ = &pre;
                if id <= known && id > 0 {
                    // a reused connection: what did the server see on it since it came back?
                    let s = self.srv.lock().unwrap();
                    let log = &s.conns[(id - 1) as usize];
                    let from = *self.returned_at.get(&id).unwrap_or(&0);
                    let since: Vec<&(String, Vec<String>)> = log.cmds[from.min(log.cmds.len())..].iter().collect();
                    let unwatch = since.iter().position(|c| c.0 == "UNWATCH");
                    let ping = since.iter().position(|c| c.0 == "PING");
                    self.reuse_facts.push(json!({
                        "conn": id, "saw_unwatch": unwatch.is_some(), "saw_ping": ping.is_some(),
                        "unwatch_first": matches!((unwatch, ping), (Some(u), Some(p)) if u < p),
                        "reply": log.last_reply, "watching": log.watching,
                    }));
                }
                self.held.insert(id, c);
            }
            Ok(Err(deadpool_redis::PoolError::Timeout(_))) => self.last_get = "timeout".into(),
            Ok(Err(e)) => self.last_get = format!("error:{:?}", e).chars().take(60).collect(),
            Err(_) => self.last_get = "hang".into(),
        }
        self.srv.lock().unwrap().plan.clear();
    }
}

pub fn run_path(cfg: &Cfg, path: &PathRec<Post>, record: bool) -> (PathResult, Vec<String>) {
    let mut res = PathResult { id: path.id, conform: true, ..Default::default() };
    let mut lines = vec![];
    let srv: Arc<Mutex<Srv>> = Arc::new(Mutex::new(Srv::default()));
    let listener = TcpListener::bind("127.0.0.1:0").unwrap();
    let port = listener.local_addr().unwrap().port();
    let srv2 = srv.clone();
    std::thread::spawn(move || {
        for s in listener.incoming().flatten() {
            let ix = {
                let mut g = srv2.lock().unwrap();
                g.conns.push(ConnLog::default());
                g.conns.len() - 1
            };
            let srv3 = srv2.clone();
            std::thread::spawn(move || serve(s, ix, srv3));
        }
    });
    let rt = tokio::runtime::Builder::new_multi_thread().worker_threads(1).enable_all().build().unwrap();
    rt.block_on(async {
        let mut c = Config::from_url(format!("redis://127.0.0.1:{}/", port));
        let mut pc = PoolConfig::new(cfg.max_size);
        // (loopback TCP with delayed ACKs answers a pipelined recycle after up to ~40 ms)
        pc.timeouts.recycle = Some(Duration::from_millis(400));
        c.pool = Some(pc);
        let pool = c.create_pool(Some(Runtime::Tokio1)).unwrap();
        let mut w = World { pool, srv: srv.clone(), held: BTreeMap::new(), tags: 0, known: 0, last_get: "-".into(), returned_at: BTreeMap::new(), reuse_facts: vec![], taken: BTreeMap::new(), taken_reissued: 0, take_size_bad: 0, kept: vec![] };
        let mut n = 0usize;
        let ev = |w: &World, n: usize, k: &str, act: &str, probe: i64| -> String {
            let st = w.pool.status();
            let s = w.srv.lock().unwrap();
            let bad = w.reuse_facts.iter().filter(|f| !(f["saw_unwatch"].as_bool().unwrap() && f["saw_ping"].as_bool().unwrap() && f["unwatch_first"].as_bool().unwrap()
                && f["reply"] == "right" && !f["watching"].as_bool().unwrap())).count();
            // a connection that was taken must not see recycle traffic of the pool afterwards
            let taken_recycled = w.taken.iter().filter(|(c, from)| s.conns[(**c - 1) as usize].cmds[(**from).min(s.conns[(**c - 1) as usize].cmds.len())..].iter().any(|x| x.0 == "PING" || x.0 == "UNWATCH")).count();
            json!({"run": path.id, "i": n, "k": k, "act": act, "size": st.size, "taken_reissued": w.taken_reissued, "take_size_bad": w.take_size_bad, "taken_recycled": taken_recycled, "avail": st.available, "max": cfg.max_size,
                   "held": w.held.keys().collect::<Vec<_>>(), "last_get": w.last_get, "dup_pings": s.dup_pings, "npings": s.pings.len(),
                   "bad_reuse": bad, "reuses": w.reuse_facts.len(), "probe_got": probe}).to_string()
        };
        if record {
            lines.push(ev(&w, n, "begin", "-", -1));
        }
        let mut prev_held: Vec<u32> = vec![];
        for (si, st) in path.steps.iter().enumerate() {
            res.steps = si + 1;
            let c = st.x.first().and_then(|v| v.as_u64()).unwrap_or(0) as u32;
            match st.a.as_str() {
                "Get" => {
                    let plan: Vec<String> = st.x.first().and_then(|v| v.as_array()).map(|a| a.iter().filter_map(|x| x.as_str().map(|s| s.to_string())).collect()).unwrap_or_default();
                    w.get(plan).await;
                }
                "Watch" => {
                    if let Some(conn) = w.held.get_mut(&c) {
                        let _: Result<(), _> = tokio::time::timeout(Duration::from_secs(2), redis::cmd("WATCH").arg("k").query_async(&mut **conn)).await.unwrap_or(Ok(()));
                    }
                }
                "Return" => {
                    if let Some(conn) = w.held.remove(&c) {
                        let n = w.srv.lock().unwrap().conns[(c - 1) as usize].cmds.len();
                        w.returned_at.insert(c, n);
                        drop(conn);
                    }
                }
                "Take" => {
                    if let Some(conn) = w.held.remove(&c) {
                        let before = w.pool.status().size;
                        let raw = Connection::take(conn);
                        if w.pool.status().size + 1 != before {
                            w.take_size_bad += 1;
                        }
                        let n = w.srv.lock().unwrap().conns[(c - 1) as usize].cmds.len();
                        w.taken.insert(c, n);
                        // the caller keeps using the connection it took
                        w.kept.push(raw);
                    }
                }
                _ => {}
            }
            n += 1;
            if record {
                lines.push(ev(&w, n, "step", &st.a, -1));
            }
            if res.conform {
                if let Some(p) = &st.post {
                    let mut d = vec![];
                    let st_ = w.pool.status();
                    let held: Vec<u32> = w.held.keys().copied().collect();
                    if held != p.held {
                        d.push(format!("held: code {:?} model {:?}", held, p.held));
                    }
                    if st_.size != p.size {
                        d.push(format!("status.size: code {} model {}", st_.size, p.size));
                    }
                    if st_.available != p.idle.len() {
                        d.push(format!("status.available: code {} model {}", st_.available, p.idle.len()));
                    }
                    let s = w.srv.lock().unwrap();
                    if s.pings.len() as u64 != p.pn {
                        d.push(format!("PINGs sent so far: code {} model {}", s.pings.len(), p.pn));
                    }
                    if st.a == "Get" {
                        let k = p.last_pings.len();
                        let got: Vec<String> = s.pings[s.pings.len().saturating_sub(k)..].iter().map(|x| x.1.clone()).collect();
                        let want: Vec<String> = p.last_pings.iter().map(|v| v.to_string()).collect();
                        if got != want {
                            d.push(format!("PING values of this get: code {:?} model {:?}", got, want));
                        }
                        let newly: Vec<u32> = p.held.iter().filter(|c| !prev_held.contains(c)).copied().collect();
                        let want = newly.first().map(|c| format!("ok{}", c)).unwrap_or_else(|| "timeout".into());
                        if w.last_get != want {
                            d.push(format!("get result: code {} model {}", w.last_get, want));
                        }
                    }
                    for (i, cl) in s.conns.iter().enumerate() {
                        if let Some(mw) = p.watching.get(i) {
                            if cl.watching != *mw {
                                d.push(format!("server-side WATCH state of connection {}: code {} model {}", i + 1, cl.watching, mw));
                            }
                        }
                    }
                    drop(s);
                    if !d.is_empty() {
                        res.conform = false;
                        res.div_step = Some(si);
                        res.div_action = Some(format!("{}({})", st.a, st.x.iter().map(|v| v.to_string()).collect::<Vec<_>>().join(",")));
                        res.div_what = d;
                    }
                    prev_held = p.held.clone();
                }
            }
        }
        // drain and probe the capacity
        w.held.clear();
        let mut got = 0;
        let mut keep = vec![];
        loop {
            w.get(vec![]).await;
            if !w.last_get.starts_with("ok") || got > cfg.max_size + 2 {
                break;
            }
            got += 1;
            let ids: Vec<u32> = w.held.keys().copied().collect();
            for id in ids {
                keep.push(w.held.remove(&id).unwrap());
            }
        }
        n += 1;
        if record {
            lines.push(ev(&w, n, "probe", "Probe", got as i64));
        }
        drop(keep);
    });
    rt.shutdown_background();
    // The manager crate carries no schedule points: what two recycles running at the same moment on
    // different worker threads do to the pool's PING counter is only seen by letting them run.  A sample
    // of the recorded paths ends with such a phase on a pool and a server of its own; the monitor judges
    // it with the same predicates (R17b: no PING value twice on one pool).
    if record && path.id % 64 == 0 {
        lines.push(stress(path.id, path.steps.len() + 2));
    }
    (res, lines)
}

fn stress(run: u64, i: usize) -> String {
    const N: usize = 8;
    let srv: Arc<Mutex<Srv>> = Arc::new(Mutex::new(Srv::default()));
    let listener = TcpListener::bind("127.0.0.1:0").unwrap();
    let port = listener.local_addr().unwrap().port();
    let srv2 = srv.clone();
    std::thread::spawn(move || {
        for s in listener.incoming().flatten() {
            let ix = {
                let mut g = srv2.lock().unwrap();
                g.conns.push(ConnLog::default());
                g.conns.len() - 1
            };
            let srv3 = srv2.clone();
            std::thread::spawn(move || serve(s, ix, srv3));
        }
    });
    let rt = tokio::runtime::Builder::new_multi_thread().worker_threads(N).enable_all().build().unwrap();
    let (size, got) = rt.block_on(async {
        let mut c = Config::from_url(format!("redis://127.0.0.1:{}/", port));
        c.pool = Some(PoolConfig::new(N));
        let pool = c.create_pool(Some(Runtime::Tokio1)).unwrap();
        let mut first = vec![];
        for _ in 0..N {
            if let Ok(Ok(c)) = tokio::time::timeout(Duration::from_secs(5), pool.get()).await {
                first.push(c);
            }
        }
        drop(first);
        let mut hs = vec![];
        for _ in 0..N {
            let pool = pool.clone();
            hs.push(tokio::spawn(async move {
                let mut ok = 0usize;
                for _ in 0..40 {
                    if let Ok(Ok(c)) = tokio::time::timeout(Duration::from_secs(5), pool.get()).await {
                        ok += 1;
                        drop(c);
                    }
                    tokio::task::yield_now().await;
                }
                ok
            }));
        }
        let mut got = 0;
        for h in hs {
            got += h.await.unwrap_or(0);
        }
        (pool.status().size, got)
    });
    rt.shutdown_background();
    let s = srv.lock().unwrap();
    // (size / probe are not judged here: k is neither "step" nor "probe")
    json!({"run": run, "i": i, "k": "stress", "act": "Stress", "size": size, "taken_reissued": 0, "take_size_bad": 0, "taken_recycled": 0, "avail": 0, "max": N,
           "held": Vec::<u32>::new(), "last_get": format!("ok x{}", got), "dup_pings": s.dup_pings, "npings": s.pings.len(),
           "bad_reuse": 0, "reuses": 0, "probe_got": -1})
    .to_string()
}
