//! C15: histories of spec/SyncManagers.tla driven on the real deadpool-sqlite,
//! deadpool-r2d2 and deadpool-diesel pools (connections identified by the creation
//! instant deadpool records for each object).

use std::collections::BTreeMap;
use std::future::Future;
use std::pin::Pin;
use std::sync::atomic::{AtomicBool, AtomicUsize, Ordering};
use std::sync::{Arc, Condvar, Mutex};
use std::time::{Duration, Instant};

use deadpool::managed::{Manager, Object, Pool, PoolError, Timeouts};
use deadpool::Runtime;
use deadpool_sync::SyncWrapper;
use serde::Deserialize;
use serde_json::{json, Value};

use crate::common::{PathRec, PathResult};

pub const INJECTED: &str = "injected panic";

#[derive(Clone, Debug, Deserialize)]
pub struct Cfg {
    pub max_size: usize,
    pub backend: String,
}

#[derive(Clone, Debug, Deserialize)]
pub struct Post {
    pub idle: Vec<u32>,
    pub size: usize,
    pub held: Vec<u32>,
    pub rec: u32,
}

/// what differs between the three crates
pub trait Sut: 'static {
    type C: Send + 'static;
    type M: Manager<Type = SyncWrapper<Self::C>> + 'static;
    fn pool(max: usize) -> Pool<Self::M>;
    fn break_conn(_c: &mut Self::C) {}
    fn invalidate(_c: &mut Self::C) {}
}

// --- r2d2 with a scripted ManageConnection ------------------------------------------------
pub struct ScriptedConn {
    broken: Arc<AtomicBool>,
    invalid: Arc<AtomicBool>,
}
pub struct Scripted {
    n: AtomicUsize,
}
#[derive(Debug)]
pub struct ScriptedErr;
impl std::fmt::Display for ScriptedErr {
    fn fmt(&self, f: &mut std::fmt::Formatter<'_>) -> std::fmt::Result {
        write!(f, "scripted")
    }
}
impl std::error::Error for ScriptedErr {}
impl r2d2::ManageConnection for Scripted {
    type Connection = ScriptedConn;
    type Error = ScriptedErr;
    fn connect(&self) -> Result<ScriptedConn, ScriptedErr> {
        self.n.fetch_add(1, Ordering::SeqCst);
        Ok(ScriptedConn { broken: Arc::new(AtomicBool::new(false)), invalid: Arc::new(AtomicBool::new(false)) })
    }
    fn is_valid(&self, c: &mut ScriptedConn) -> Result<(), ScriptedErr> {
        if c.invalid.load(Ordering::SeqCst) {
            Err(ScriptedErr)
        } else {
            Ok(())
        }
    }
    fn has_broken(&self, c: &mut ScriptedConn) -> bool {
        c.broken.load(Ordering::SeqCst)
    }
}
pub struct R2d2;
impl Sut for R2d2 {
    type C = ScriptedConn;
    type M = deadpool_r2d2::Manager<Scripted>;
    fn pool(max: usize) -> Pool<Self::M> {
        Pool::builder(deadpool_r2d2::Manager::new(Scripted { n: AtomicUsize::new(0) }, Runtime::Tokio1))
            .max_size(max)
            .build()
            .unwrap()
    }
    fn break_conn(c: &mut ScriptedConn) {
        c.broken.store(true, Ordering::SeqCst)
    }
    fn invalidate(c: &mut ScriptedConn) {
        c.invalid.store(true, Ordering::SeqCst)
    }
}

/// the same pool with a recycle timeout configured (recycle then runs under `Runtime::timeout`)
pub struct R2d2Rto;
impl Sut for R2d2Rto {
    type C = ScriptedConn;
    type M = deadpool_r2d2::Manager<Scripted>;
    fn pool(max: usize) -> Pool<Self::M> {
        Pool::builder(deadpool_r2d2::Manager::new(Scripted { n: AtomicUsize::new(0) }, Runtime::Tokio1))
            .max_size(max)
            .runtime(Runtime::Tokio1)
            .recycle_timeout(Some(std::time::Duration::from_secs(20)))
            .create_timeout(Some(std::time::Duration::from_secs(20)))
            .build()
            .unwrap()
    }
    fn break_conn(c: &mut ScriptedConn) {
        c.broken.store(true, Ordering::SeqCst)
    }
    fn invalidate(c: &mut ScriptedConn) {
        c.invalid.store(true, Ordering::SeqCst)
    }
}

// --- sqlite ----------------------------------------------------------------------------
pub struct Sqlite;
impl Sut for Sqlite {
    type C = deadpool_sqlite::rusqlite::Connection;
    type M = deadpool_sqlite::Manager;
    fn pool(max: usize) -> Pool<Self::M> {
        let cfg = deadpool_sqlite::Config::new(":memory:");
        cfg.builder(Runtime::Tokio1).unwrap().max_size(max).build().unwrap()
    }
}

pub struct SqliteRto;
impl Sut for SqliteRto {
    type C = deadpool_sqlite::rusqlite::Connection;
    type M = deadpool_sqlite::Manager;
    fn pool(max: usize) -> Pool<Self::M> {
        let cfg = deadpool_sqlite::Config::new(":memory:");
        cfg.builder(Runtime::Tokio1)
            .unwrap()
            .max_size(max)
            .runtime(Runtime::Tokio1)
            .recycle_timeout(Some(std::time::Duration::from_secs(20)))
            .build()
            .unwrap()
    }
}

// --- diesel (sqlite backend) -------------------------------------------------------------
pub struct Diesel;
impl Sut for Diesel {
    type C = diesel::SqliteConnection;
    type M = deadpool_diesel::sqlite::Manager;
    fn pool(max: usize) -> Pool<Self::M> {
        Pool::builder(deadpool_diesel::sqlite::Manager::new(":memory:", Runtime::Tokio1)).max_size(max).build().unwrap()
    }
    fn break_conn(c: &mut diesel::SqliteConnection) {
        use diesel::connection::{AnsiTransactionManager, TransactionManager};
        // a transaction left open: the connection must not go back into circulation
        let _ = AnsiTransactionManager::begin_transaction(c);
    }
}

// ... and its other recycling methods.  The health query fails (integer overflow) once the harness
// has marked the connection invalid by creating a temp table.
const HEALTH_SQL: &str = "SELECT CASE WHEN EXISTS (SELECT 1 FROM sqlite_temp_master WHERE name = 'bad') \
                          THEN abs(-9223372036854775808) ELSE 1 END";
fn diesel_break(c: &mut diesel::SqliteConnection) {
    use diesel::connection::{AnsiTransactionManager, TransactionManager};
    let _ = AnsiTransactionManager::begin_transaction(c);
}
fn diesel_invalidate(c: &mut diesel::SqliteConnection) {
    use diesel::RunQueryDsl;
    let _ = diesel::sql_query("CREATE TEMP TABLE bad(x)").execute(c);
}
fn diesel_pool(max: usize, m: deadpool_diesel::RecyclingMethod<diesel::SqliteConnection>) -> Pool<deadpool_diesel::sqlite::Manager> {
    let cfg = deadpool_diesel::ManagerConfig { recycling_method: m };
    Pool::builder(deadpool_diesel::sqlite::Manager::from_config(":memory:", Runtime::Tokio1, cfg)).max_size(max).build().unwrap()
}
pub struct DieselVerified;
impl Sut for DieselVerified {
    type C = diesel::SqliteConnection;
    type M = deadpool_diesel::sqlite::Manager;
    fn pool(max: usize) -> Pool<Self::M> {
        diesel_pool(max, deadpool_diesel::RecyclingMethod::Verified)
    }
    fn break_conn(c: &mut Self::C) {
        diesel_break(c)
    }
}
pub struct DieselQuery;
impl Sut for DieselQuery {
    type C = diesel::SqliteConnection;
    type M = deadpool_diesel::sqlite::Manager;
    fn pool(max: usize) -> Pool<Self::M> {
        diesel_pool(max, deadpool_diesel::RecyclingMethod::CustomQuery(HEALTH_SQL.into()))
    }
    fn break_conn(c: &mut Self::C) {
        diesel_break(c)
    }
    fn invalidate(c: &mut Self::C) {
        diesel_invalidate(c)
    }
}
pub struct DieselFn;
impl Sut for DieselFn {
    type C = diesel::SqliteConnection;
    type M = deadpool_diesel::sqlite::Manager;
    fn pool(max: usize) -> Pool<Self::M> {
        diesel_pool(
            max,
            deadpool_diesel::RecyclingMethod::CustomFunction(Box::new(|c: &mut diesel::SqliteConnection| {
                use diesel::RunQueryDsl;
                diesel::sql_query(HEALTH_SQL).execute(c).map(|_| ()).map_err(deadpool_diesel::Error::Ping)
            })),
        )
    }
    fn break_conn(c: &mut Self::C) {
        diesel_break(c)
    }
    fn invalidate(c: &mut Self::C) {
        diesel_invalidate(c)
    }
}

#[derive(Default)]
struct Gate {
    out: Mutex<Option<u8>>,
    cv: Condvar,
    started: AtomicBool,
    finished: AtomicBool,
}

type GetFut<M> = Pin<Box<dyn Future<Output = Result<Object<M>, PoolError<<M as Manager>::Error>>>>>;

struct World<S: Sut> {
    pool: Pool<S::M>,
    held: BTreeMap<u32, Object<S::M>>,
    ids: BTreeMap<Instant, u32>,
    gates: BTreeMap<u32, Arc<Gate>>,
    pending: Option<GetFut<S::M>>,
    last_get: String,
    handed: Vec<u32>,
    unexpected: Vec<String>,
    /// ground truth kept by the harness: connections that were damaged (panic / broken / invalid)
    damaged: BTreeMap<u32, &'static str>,
    /// hand-outs of a connection that was already damaged
    bad_handouts: usize,
}

const WAIT: Duration = Duration::from_millis(40);
const LONG: Duration = Duration::from_millis(3000);

impl<S: Sut> World<S> {
    fn id_of(&mut self, o: &Object<S::M>) -> u32 {
        let k = Object::metrics(o).created;
        let n = self.ids.len() as u32 + 1;
        *self.ids.entry(k).or_insert(n)
    }
    async fn finish_get(&mut self, r: Result<Object<S::M>, PoolError<<S::M as Manager>::Error>>) {
        match r {
            Ok(o) => {
                let id = self.id_of(&o);
                self.last_get = format!("ok{}", id);
                if self.damaged.contains_key(&id) {
                    self.bad_handouts += 1;
                }
                self.handed.push(id);
                self.held.insert(id, o);
            }
            Err(PoolError::Timeout(_)) => self.last_get = "timeout".into(),
            Err(_) => self.last_get = "error".into(),
        }
    }
    async fn get(&mut self, resume: bool) {
        let mut f: GetFut<S::M> = match (resume, self.pending.take()) {
            (true, Some(f)) => f,
            (true, None) => {
                self.last_get = "nothing to resume".into();
                return;
            }
            (false, _) => {
                let pool = self.pool.clone();
                // never wait for a slot; the pool's own create / recycle timeouts (if configured) stay in force
                let mut to: Timeouts = pool.timeouts();
                to.wait = Some(Duration::ZERO);
                Box::pin(async move { pool.timeout_get(&to).await })
            }
        };
        match tokio::time::timeout(if resume { LONG } else { WAIT }, &mut f).await {
            Ok(r) => self.finish_get(r).await,
            Err(_) => {
                self.last_get = "wait".into();
                self.pending = Some(f);
            }
        }
    }
    fn observe(&self) -> (Vec<u32>, usize, usize, bool) {
        let st = self.pool.status();
        (self.held.keys().copied().collect(), st.size, st.available, self.pending.is_some())
    }
}

fn compare<S: Sut>(w: &World<S>, p: &Post, act: &str, prev_held: &[u32]) -> Vec<String> {
    let mut d = vec![];
    let (held, size, avail, pending) = w.observe();
    if held != p.held {
        d.push(format!("held: code {:?} model {:?}", held, p.held));
    }
    if size != p.size {
        d.push(format!("status.size: code {} model {}", size, p.size));
    }
    if pending != (p.rec != 0) {
        d.push(format!("get waiting for a health check: code {} model {}", pending, p.rec != 0));
    }
    if !pending && avail != p.idle.len() {
        d.push(format!("status.available: code {} model {}", avail, p.idle.len()));
    }
    if act == "Get" || act == "GetResume" {
        let newly: Vec<u32> = p.held.iter().filter(|c| !prev_held.contains(c)).copied().collect();
        let want = if p.rec != 0 {
            "wait".to_string()
        } else if let Some(c) = newly.first() {
            format!("ok{}", c)
        } else {
            "timeout".to_string()
        };
        if w.last_get != want {
            d.push(format!("get result: code {} model {}", w.last_get, want));
        }
    }
    d
}

pub fn run_path<S: Sut>(cfg: &Cfg, path: &PathRec<Post>, record: bool) -> (PathResult, Vec<String>) {
    let mut res = PathResult { id: path.id, conform: true, ..Default::default() };
    let mut lines: Vec<String> = vec![];
    let rt = tokio::runtime::Builder::new_multi_thread().worker_threads(1).max_blocking_threads(8).enable_all().build().unwrap();
    rt.block_on(async {
        let mut w: World<S> = World {
            pool: S::pool(cfg.max_size),
            held: BTreeMap::new(),
            ids: BTreeMap::new(),
            gates: BTreeMap::new(),
            pending: None,
            last_get: "-".into(),
            handed: vec![],
            unexpected: vec![],
            damaged: BTreeMap::new(),
            bad_handouts: 0,
        };
        let mut will_panic: BTreeMap<u32, u8> = BTreeMap::new();
        let mut n = 0usize;
        let mut prev_held: Vec<u32> = vec![];
        let ev = |w: &World<S>, n: usize, k: &str, act: &str, probe: i64| -> String {
            let (held, size, avail, pending) = w.observe();
            let bad_handout = w.bad_handouts;
            let damaged = &w.damaged;
            json!({"run": path.id, "i": n, "k": k, "act": act, "held": held, "size": size, "avail": avail, "pending": pending,
                   "last_get": w.last_get, "bad_handout": bad_handout, "max": cfg.max_size, "probe_got": probe,
                   "upanics": w.unexpected.len(), "ndamaged_held": held.iter().filter(|c| damaged.contains_key(c)).count()})
            .to_string()
        };
        if record {
            lines.push(ev(&w, n, "begin", "-", -1));
        }
        for (si, st) in path.steps.iter().enumerate() {
            res.steps = si + 1;
            let c = st.x.first().and_then(|v| v.as_u64()).unwrap_or(0) as u32;
            let out_str = st.x.get(1).and_then(|v| v.as_str()).unwrap_or("ok").to_string();
            let out_panic = out_str == "panic";
            // how a closure that outlives its interact() ends: 0 ok, 1 panic, 2 breaks, 3 invalidates the connection
            let out_code: u8 = match out_str.as_str() {
                "panic" => 1,
                "break" => 2,
                "invalid" => 3,
                _ => 0,
            };
            match st.a.as_str() {
                "Get" => w.get(false).await,
                "GetResume" => w.get(true).await,
                "Interact" => {
                    if let Some(o) = w.held.get(&c) {
                        let r = match tokio::time::timeout(
                            LONG,
                            o.interact(move |_c| {
                                if out_panic {
                                    panic!("{}", INJECTED)
                                }
                            }),
                        )
                        .await
                        {
                            Ok(r) => r,
                            Err(_) => {
                                w.unexpected.push("interact did not complete".into());
                                continue;
                            }
                        };
                        if out_panic {
                            w.damaged.insert(c, "panic");
                            // handing this one out from now on is a violation; it may still be held
                        }
                        if r.is_err() != out_panic {
                            w.unexpected.push(format!("interact result {:?}", r.is_ok()));
                        }
                    }
                }
                "InteractCancel" => {
                    if let Some(o) = w.held.get(&c) {
                        let g = Arc::new(Gate::default());
                        w.gates.insert(c, g.clone());
                        will_panic.insert(c, out_code);
                        let g2 = g.clone();
                        let mut f = Box::pin(o.interact(move |conn| {
                            g2.started.store(true, Ordering::SeqCst);
                            let mut o = g2.out.lock().unwrap();
                            while o.is_none() {
                                o = g2.cv.wait(o).unwrap();
                            }
                            let p = o.unwrap();
                            drop(o);
                            match p {
                                2 => S::break_conn(conn),
                                3 => S::invalidate(conn),
                                _ => {}
                            }
                            g2.finished.store(true, Ordering::SeqCst);
                            if p == 1 {
                                panic!("{}", INJECTED)
                            }
                        }));
                        // start the closure, then abandon the future
                        let _ = tokio::time::timeout(Duration::from_millis(1), &mut f).await;
                        let t0 = Instant::now();
                        while !g.started.load(Ordering::SeqCst) && t0.elapsed() < LONG {
                            tokio::time::sleep(Duration::from_micros(200)).await;
                        }
                        drop(f);
                    }
                }
                "Finish" => {
                    if let Some(g) = w.gates.remove(&c) {
                        let p = *will_panic.get(&c).unwrap_or(&0);
                        *g.out.lock().unwrap() = Some(p);
                        g.cv.notify_all();
                        let t0 = Instant::now();
                        while !g.finished.load(Ordering::SeqCst) && t0.elapsed() < LONG {
                            tokio::time::sleep(Duration::from_micros(200)).await;
                        }
                        // let the panic unwind and poison the mutex
                        tokio::time::sleep(Duration::from_millis(2)).await;
                        match p {
                            1 => {
                                w.damaged.insert(c, "panic");
                            }
                            2 => {
                                w.damaged.insert(c, "broken");
                            }
                            3 => {
                                w.damaged.insert(c, "invalid");
                            }
                            _ => {}
                        }
                    }
                }
                "Break" => {
                    if let Some(o) = w.held.get(&c) {
                        let _ = tokio::time::timeout(LONG, o.interact(|c| S::break_conn(c))).await;
                        w.damaged.insert(c, "broken");
                    }
                }
                "Invalidate" => {
                    if let Some(o) = w.held.get(&c) {
                        let _ = tokio::time::timeout(LONG, o.interact(|c| S::invalidate(c))).await;
                        w.damaged.insert(c, "invalid");
                    }
                }
                "Return" => {
                    drop(w.held.remove(&c));
                }
                "UnwindReturn" => {
                    // the task that holds the connection propagates the panic of its closure: the connection is
                    // dropped while that task unwinds
                    if let Some(o) = w.held.remove(&c) {
                        let h = tokio::spawn(async move {
                            let o = o;
                            o.interact(|_c| -> () { panic!("{}", INJECTED) }).await.unwrap();
                        });
                        let _ = tokio::time::timeout(LONG, h).await;
                        w.damaged.insert(c, "panic");
                    }
                }
                _ => {}
            }
            n += 1;
            if record {
                lines.push(ev(&w, n, "step", &st.a, -1));
            }
            if res.conform {
                if let Some(p) = &st.post {
                    let d = compare(&w, p, &st.a, &prev_held);
                    if !d.is_empty() {
                        res.conform = false;
                        res.div_step = Some(si);
                        res.div_action = Some(format!("{}({})", st.a, st.x.iter().map(|v| v.to_string()).collect::<Vec<_>>().join(",")));
                        res.div_what = d;
                    }
                    prev_held = p.held.clone();
                }
            }
        }
        // drain: finish closures, resume a waiting get, return everything, then probe capacity
        let gates: Vec<(u32, Arc<Gate>)> = w.gates.iter().map(|(k, v)| (*k, v.clone())).collect();
        for (c, g) in gates {
            let p = *will_panic.get(&c).unwrap_or(&0);
            *g.out.lock().unwrap() = Some(p);
            g.cv.notify_all();
            let t0 = Instant::now();
            while !g.finished.load(Ordering::SeqCst) && t0.elapsed() < LONG {
                tokio::time::sleep(Duration::from_micros(200)).await;
            }
            match p {
                1 => {
                    w.damaged.insert(c, "panic");
                }
                2 => {
                    w.damaged.insert(c, "broken");
                }
                3 => {
                    w.damaged.insert(c, "invalid");
                }
                _ => {}
            }
        }
        tokio::time::sleep(Duration::from_millis(2)).await;
        if w.pending.is_some() {
            w.get(true).await;
        }
        w.held.clear();
        let mut got = vec![];
        loop {
            w.get(false).await;
            // (nothing is running any more that a health check could have to wait for: a get that is
            //  merely slow - a busy machine - is given the long limit, the verdict does not depend on timing)
            if w.pending.is_some() {
                w.get(true).await;
            }
            if !w.last_get.starts_with("ok") || got.len() > cfg.max_size + 2 {
                break;
            }
            got.push(w.last_get.clone());
        }
        n += 1;
        if record {
            lines.push(ev(&w, n, "probe", "Probe", got.len() as i64));
        }
    });
    rt.shutdown_background();
    let _ = Value::Null;
    (res, lines)
}
