//! C19: cases enumerated by TLC from spec/RedisConfig.tla on the real deadpool-redis code.

use std::collections::HashMap;
use std::io::BufRead;
use std::net::TcpListener;
use std::sync::atomic::{AtomicUsize, Ordering};
use std::sync::Arc;
use std::time::Duration;

use deadpool_redis::{ConnectionAddr, ConnectionInfo, PoolConfig, ProtocolVersion, RedisConnectionInfo, Runtime};
use serde_json::{json, Value};

fn url_of(kind: &str, port: u16) -> Option<String> {
    Some(match kind {
        "unset" => return None,
        "valid" => format!("redis://127.0.0.1:{}/", port),
        "valid2" => format!("redis://:secret@127.0.0.1:{}/1", port),
        "noscheme" => "127.0.0.1:6379".into(),
        "badscheme" => "http://127.0.0.1:6379/".into(),
        "empty" => "".into(),
        "squote" => "'".into(),
        "dquote" => "\"".into(),
        "badport" => "redis://127.0.0.1:notaport/".into(),
        "spaces" => "  redis ://x".into(),
        "onlyscheme" => "redis://".into(),
        k => panic!("url kind {}", k),
    })
}

/// a listener that counts connection attempts and closes them at once
struct Spy {
    port: u16,
    hits: Arc<AtomicUsize>,
}
fn spy(fixed: Option<u16>) -> Option<Spy> {
    let l = TcpListener::bind(("127.0.0.1", fixed.unwrap_or(0))).ok()?;
    let port = l.local_addr().ok()?.port();
    let hits = Arc::new(AtomicUsize::new(0));
    let h2 = hits.clone();
    l.set_nonblocking(true).ok()?;
    std::thread::spawn(move || {
        let t0 = std::time::Instant::now();
        while t0.elapsed() < Duration::from_millis(1500) {
            match l.accept() {
                Ok((s, _)) => {
                    h2.fetch_add(1, Ordering::SeqCst);
                    drop(s);
                }
                Err(_) => std::thread::sleep(Duration::from_millis(2)),
            }
        }
    });
    Some(Spy { port, hits })
}

fn conn_of(kind: &str, port: u16) -> Option<ConnectionInfo> {
    match kind {
        "unset" => None,
        "tcp" => Some(ConnectionInfo { addr: ConnectionAddr::Tcp("127.0.0.1".into(), port), redis: RedisConnectionInfo::default() }),
        _ => Some(ConnectionInfo { addr: ConnectionAddr::Unix(format!("/tmp/xh-redis-{}.sock", port).into()), redis: RedisConnectionInfo::default() }),
    }
}

fn builder_case(c: &Value, rt: &tokio::runtime::Runtime) -> (Value, Vec<String>) {
    let e = &c["expect"];
    let flavour = c["flavour"].as_str().unwrap();
    let named = spy(None);
    let decoy = spy(None);
    let (Some(named), Some(decoy)) = (named, decoy) else {
        return (json!({"builder": "no listener"}), vec!["could not open loopback listeners".into()]);
    };
    // "mixed_gb" / "mixed_bg": a list of seed nodes with a well-formed and a malformed URL (cluster, sentinel)
    let kind = c["urls"].as_str().unwrap();
    let url_list: Option<Vec<String>> = match kind {
        "mixed_gb" => Some(vec![url_of("valid", named.port).unwrap(), url_of("badscheme", named.port).unwrap()]),
        "mixed_bg" => Some(vec![url_of("badport", named.port).unwrap(), url_of("valid", named.port).unwrap()]),
        k => url_of(k, named.port).map(|u| vec![u]),
    };
    let url = url_list.as_ref().and_then(|l| l.first().cloned());
    let conn = conn_of(c["conn"].as_str().unwrap(), named.port);
    let want_servers = e["servers"].as_str().unwrap();
    let default_spy = if want_servers == "default" { spy(Some(6379)) } else { None };
    // build + one connection attempt; the outcome of the attempt itself is irrelevant
    let r = std::panic::catch_unwind(std::panic::AssertUnwindSafe(|| -> (String, bool) {
        macro_rules! attempt {
            ($cfg:expr) => {{
                match $cfg.create_pool(Some(Runtime::Tokio1)) {
                    Err(deadpool_redis::CreatePoolError::Config(deadpool_redis::ConfigError::UrlAndConnectionSpecified)) => ("UrlAndConnectionSpecified".to_string(), false),
                    Err(deadpool_redis::CreatePoolError::Config(_)) => ("config_error".to_string(), false),
                    Err(_) => ("build_error".to_string(), false),
                    Ok(pool) => {
                        let _ = rt.block_on(async { tokio::time::timeout(Duration::from_millis(400), pool.get()).await });
                        ("ok".to_string(), true)
                    }
                }
            }};
        }
        match flavour {
            "plain" => attempt!(deadpool_redis::Config { url: url.clone(), connection: conn.clone(), pool: None }),
            "cluster" => attempt!(deadpool_redis::cluster::Config {
                urls: url_list.clone(),
                connections: conn.clone().map(|c| vec![c]),
                pool: None,
                read_from_replicas: false
            }),
            _ => attempt!(deadpool_redis::sentinel::Config {
                urls: url_list.clone(),
                connections: conn.clone().map(|c| vec![c]),
                server_type: Default::default(),
                master_name: "mymaster".into(),
                node_connection_info: None,
                pool: None
            }),
        }
    }));
    let mut problems = vec![];
    let (got, attempted) = match r {
        Ok(x) => x,
        Err(_) => ("panic".to_string(), false),
    };
    if got != e["builder"].as_str().unwrap() {
        problems.push(format!("builder: code {} spec {}", got, e["builder"]));
    }
    std::thread::sleep(Duration::from_millis(5));
    let (nh, dh) = (named.hits.load(Ordering::SeqCst), decoy.hits.load(Ordering::SeqCst));
    let defh = default_spy.as_ref().map(|s| s.hits.load(Ordering::SeqCst) as i64).unwrap_or(-1);
    if attempted && got == "ok" {
        if dh != 0 {
            problems.push("a server that was not named was contacted".into());
        }
        match (want_servers, c["conn"].as_str().unwrap()) {
            ("named_url", _) | ("named_conn", "tcp") => {
                if nh == 0 {
                    problems.push("the named server was not contacted".into());
                }
            }
            ("default", _) => {
                if nh != 0 {
                    problems.push("a server was contacted although none was named".into());
                }
                if defh == 0 {
                    problems.push("the default local server (127.0.0.1:6379) was not contacted".into());
                }
            }
            _ => {
                if nh != 0 {
                    problems.push("a TCP server was contacted although a unix socket was named".into());
                }
            }
        }
    }
    (json!({"builder": got, "named_hits": nh, "decoy_hits": dh, "default_hits": defh}), problems)
}

fn conv_case(c: &Value) -> (Value, Vec<String>) {
    let s = |k: &str| c[k].as_str().unwrap();
    let addr = match s("addr") {
        "tcp" => ConnectionAddr::Tcp("redis.example".into(), 6380),
        "tcptls_secure" => ConnectionAddr::TcpTls { host: "tls.example".into(), port: 6390, insecure: false },
        "tcptls_insecure" => ConnectionAddr::TcpTls { host: "tls.example".into(), port: 1, insecure: true },
        _ => ConnectionAddr::Unix("/var/run/redis/redis.sock".into()),
    };
    let db: i64 = match s("db") {
        "max" => i64::MAX,
        "min" => i64::MIN,
        x => x.parse().unwrap(),
    };
    let text = |k: &str| match s(k) {
        "none" => None,
        "empty" => Some(String::new()),
        "unicode" => Some("üser ✓".to_string()),
        _ => Some("some text".to_string()),
    };
    let protocol = if s("protocol") == "RESP3" { ProtocolVersion::RESP3 } else { ProtocolVersion::RESP2 };
    let info = ConnectionInfo { addr, redis: RedisConnectionInfo { db, username: text("username"), password: text("password"), protocol } };
    let show = |i: &ConnectionInfo| format!("{:?}", i);
    let mut problems = vec![];
    // there ...
    let r: redis::ConnectionInfo = info.clone().into();
    let same_addr = match (&info.addr, &r.addr) {
        (ConnectionAddr::Tcp(h, p), redis::ConnectionAddr::Tcp(h2, p2)) => h == h2 && p == p2,
        (ConnectionAddr::TcpTls { host, port, insecure }, redis::ConnectionAddr::TcpTls { host: h2, port: p2, insecure: i2, .. }) => host == h2 && port == p2 && insecure == i2,
        (ConnectionAddr::Unix(p), redis::ConnectionAddr::Unix(p2)) => p == p2,
        _ => false,
    };
    if !same_addr {
        problems.push(format!("address changed on conversion: {:?} -> {:?}", info.addr, r.addr));
    }
    if r.redis.db != db || r.redis.username != info.redis.username || r.redis.password != info.redis.password {
        problems.push(format!("db / username / password changed on conversion: {:?}", r.redis));
    }
    let p_ok = matches!((protocol, r.redis.protocol), (ProtocolVersion::RESP2, redis::ProtocolVersion::RESP2) | (ProtocolVersion::RESP3, redis::ProtocolVersion::RESP3));
    if !p_ok {
        problems.push("protocol changed on conversion".into());
    }
    // ... and back again
    let back: ConnectionInfo = r.into();
    if show(&back) != show(&info) {
        problems.push(format!("round trip: {} -> {}", show(&info), show(&back)));
    }
    // sentinel node connection info
    use deadpool_redis::sentinel::{SentinelNodeConnectionInfo, TlsMode};
    let tls = match s("tls") {
        "secure" => Some(TlsMode::Secure),
        "insecure" => Some(TlsMode::Insecure),
        _ => None,
    };
    let node = SentinelNodeConnectionInfo { tls_mode: tls, redis_connection_info: if s("username") == "none" && s("password") == "none" { None } else { Some(info.redis.clone()) } };
    let rn: redis::sentinel::SentinelNodeConnectionInfo = node.clone().into();
    let tls_ok = matches!((tls, &rn.tls_mode), (None, None) | (Some(TlsMode::Secure), Some(redis::TlsMode::Secure)) | (Some(TlsMode::Insecure), Some(redis::TlsMode::Insecure)));
    if !tls_ok {
        problems.push("tls mode changed on conversion".into());
    }
    let nb: SentinelNodeConnectionInfo = rn.into();
    if format!("{:?}", nb) != format!("{:?}", node) {
        problems.push(format!("sentinel node info round trip: {:?} -> {:?}", node, nb));
    }
    // serde round trip of the connection description
    let j = serde_json::to_string(&info).unwrap();
    match serde_json::from_str::<ConnectionInfo>(&j) {
        Ok(b) if show(&b) == show(&info) => {}
        other => problems.push(format!("serde round trip of ConnectionInfo: {} -> {:?}", j, other.map(|b| show(&b)))),
    }
    (json!({"roundtrip": show(&back)}), problems)
}

fn dur_vals(sym: &str, env: bool) -> Option<(u64, u32)> {
    match sym {
        "0s0n" => Some((0, 0)),
        "1s0n" => Some((1, 0)),
        "0s1n" => Some((0, 1)),
        "maxsmaxn" => Some((if env { 1 << 40 } else { u64::MAX }, 999_999_999)),
        _ => None,
    }
}

#[derive(serde::Deserialize, serde::Serialize, Debug)]
struct Wrap {
    redis: deadpool_redis::Config,
}

fn serde_case(c: &Value) -> (Value, Vec<String>) {
    let s = |k: &str| c[k].as_str().unwrap();
    let env = s("source") == "env";
    let mut problems = vec![];
    let pool_omitted = s("maxsize") == "omitted";
    let big: u64 = if env { 1 << 32 } else { usize::MAX as u64 };
    let maxsize: Option<u64> = match s("maxsize") {
        "omitted" => None,
        "big" => Some(big),
        x => Some(x.parse().unwrap()),
    };
    let cfg: Result<deadpool_redis::Config, String> = if env {
        let mut m: HashMap<String, String> = HashMap::new();
        m.insert("REDIS__URL".into(), "redis://127.0.0.1/".into());
        if let Some(ms) = maxsize {
            m.insert("REDIS__POOL__MAX_SIZE".into(), ms.to_string());
            for (k, name) in [("twait", "WAIT"), ("tcreate", "CREATE"), ("trecycle", "RECYCLE")] {
                if let Some((secs, nanos)) = dur_vals(s(k), true) {
                    m.insert(format!("REDIS__POOL__TIMEOUTS__{}__SECS", name), secs.to_string());
                    m.insert(format!("REDIS__POOL__TIMEOUTS__{}__NANOS", name), nanos.to_string());
                }
            }
            if s("qmode") != "omitted" {
                m.insert("REDIS__POOL__QUEUE_MODE".into(), s("qmode").to_string());
            }
        }
        config::Config::builder()
            .add_source(config::Environment::default().separator("__").try_parsing(true).source(Some(m)))
            .build()
            .and_then(|c| c.try_deserialize::<Wrap>())
            .map(|w| w.redis)
            .map_err(|e| e.to_string())
    } else {
        let mut pool = serde_json::Map::new();
        if let Some(ms) = maxsize {
            pool.insert("max_size".into(), json!(ms));
            let mut t = serde_json::Map::new();
            for (k, name) in [("twait", "wait"), ("tcreate", "create"), ("trecycle", "recycle")] {
                match s(k) {
                    "null" => {
                        t.insert(name.into(), Value::Null);
                    }
                    sym => {
                        if let Some((secs, nanos)) = dur_vals(sym, false) {
                            t.insert(name.into(), json!({"secs": secs, "nanos": nanos}));
                        }
                    }
                }
            }
            if !t.is_empty() {
                // a timeouts section that is present must name all three fields
                for name in ["wait", "create", "recycle"] {
                    t.entry(name.to_string()).or_insert(Value::Null);
                }
                pool.insert("timeouts".into(), Value::Object(t));
            }
            if s("qmode") != "omitted" {
                pool.insert("queue_mode".into(), json!(s("qmode")));
            }
        }
        let mut top = serde_json::Map::new();
        top.insert("url".into(), json!("redis://127.0.0.1/"));
        if !pool_omitted {
            top.insert("pool".into(), Value::Object(pool));
        }
        serde_json::from_value::<deadpool_redis::Config>(Value::Object(top)).map_err(|e| e.to_string())
    };
    let cfg = match cfg {
        Ok(c) => c,
        Err(e) => return (json!({"error": e}), vec![format!("deserialisation failed: {}", e)]),
    };
    let e = &c["expect"]["serde"];
    let pc: PoolConfig = cfg.get_pool_config();
    let want_max = match e["maxsize"].as_str().unwrap() {
        "default" => PoolConfig::default().max_size as u64,
        "big" => big,
        x => x.parse().unwrap(),
    };
    if pc.max_size as u64 != want_max {
        problems.push(format!("max_size: code {} spec {}", pc.max_size, want_max));
    }
    let pool_level = !pool_omitted;
    for (k, got) in [("twait", pc.timeouts.wait), ("tcreate", pc.timeouts.create), ("trecycle", pc.timeouts.recycle)] {
        let sym = e[k].as_str().unwrap();
        let want = if pool_level { dur_vals(sym, env).map(|(s, n)| Duration::new(s, n)) } else { None };
        if got != want {
            problems.push(format!("{}: code {:?} spec {:?}", k, got, want));
        }
    }
    let want_q = if pool_level { e["qmode"].as_str().unwrap() } else { "Fifo" };
    if format!("{:?}", pc.queue_mode) != want_q {
        problems.push(format!("queue_mode: code {:?} spec {}", pc.queue_mode, want_q));
    }
    // serialise / deserialise: unchanged
    let j = serde_json::to_string(&pc).unwrap();
    match serde_json::from_str::<PoolConfig>(&j) {
        Ok(b) if format!("{:?}", b) == format!("{:?}", pc) => {}
        other => problems.push(format!("PoolConfig round trip {} -> {:?}", j, other)),
    }
    (json!({"pool": format!("{:?}", pc)}), problems)
}

pub fn run(file: &str, out: Option<String>) {
    let f = std::io::BufReader::new(std::fs::File::open(file).expect("cases file"));
    let rt = tokio::runtime::Builder::new_multi_thread().worker_threads(2).enable_all().build().unwrap();
    let mut n = 0;
    let mut nbad = 0;
    let mut bad = vec![];
    let mut samples = vec![];
    for l in f.lines() {
        let l = l.unwrap();
        if l.trim().is_empty() {
            continue;
        }
        let c: Value = serde_json::from_str(&l).expect("case json");
        let r = std::panic::catch_unwind(std::panic::AssertUnwindSafe(|| match c["slice"].as_str().unwrap() {
            "builder" => builder_case(&c, &rt),
            "conv" => conv_case(&c),
            _ => serde_case(&c),
        }));
        let (got, problems) = r.unwrap_or_else(|_| (json!("panic"), vec!["the code panicked".into()]));
        n += 1;
        let rec = json!({"case": c, "got": got, "ok": problems.is_empty(), "problems": problems});
        if !problems.is_empty() {
            nbad += 1;
            if bad.len() < 10 {
                bad.push(rec.clone());
            }
        }
        if samples.len() < 3 && n % 53 == 1 {
            samples.push(rec);
        }
    }
    let summary = json!({"cases": n, "mismatch": nbad, "table_errors": 0, "first_mismatches": bad, "samples": samples});
    if let Some(o) = out {
        std::fs::write(o, serde_json::to_string_pretty(&summary).unwrap()).unwrap();
    }
    println!("{}", json!({"cases": n, "mismatch": nbad}));
}
