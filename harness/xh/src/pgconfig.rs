//! C18: cases enumerated by TLC from spec/PgConfig.tla executed on the real
//! deadpool_postgres::Config::get_pg_config() / create_pool().

use std::io::BufRead;
use std::str::FromStr;
use std::time::Duration;

use deadpool_postgres::{
    ChannelBinding, Config, ConfigError, CreatePoolError, LoadBalanceHosts, PoolConfig, Runtime, SslMode, TargetSessionAttrs, Timeouts,
};
use serde_json::{json, Value};
use tokio_postgres::config::Host;
use tokio_postgres::NoTls;

const U: &str = "unset";

fn s_opt(v: &Value) -> Option<String> {
    match v.as_str() {
        Some(U) | None => None,
        Some(s) => Some(s.to_string()),
    }
}
fn strs(v: &Value) -> Vec<String> {
    v.as_array().map(|a| a.iter().filter_map(|x| x.as_str().map(|s| s.to_string())).collect()).unwrap_or_default()
}
fn ints(v: &Value) -> Vec<u16> {
    v.as_array().map(|a| a.iter().filter_map(|x| x.as_u64().map(|n| n as u16)).collect()).unwrap_or_default()
}

/// the getters of a tokio_postgres::Config, rendered in the vocabulary of the table
fn render(c: &tokio_postgres::Config) -> Value {
    let hosts: Vec<String> = c
        .get_hosts()
        .iter()
        .map(|h| match h {
            Host::Tcp(s) => s.clone(),
            #[cfg(unix)]
            Host::Unix(p) => format!("unix:{}", p.display()),
        })
        .collect();
    json!({
        "user": c.get_user(), "password": c.get_password().map(|p| String::from_utf8_lossy(p).to_string()),
        "dbname": c.get_dbname(), "options": c.get_options(), "app": c.get_application_name(),
        "hosts": hosts, "ports": c.get_ports(), "hostaddrs": c.get_hostaddrs().iter().map(|a| a.to_string()).collect::<Vec<_>>(),
        "ctimeout": c.get_connect_timeout().map(|d| d.as_secs() as i64).unwrap_or(-1),
        "keepalives": c.get_keepalives(), "kidle": c.get_keepalives_idle().as_secs(),
        "sslmode": format!("{:?}", c.get_ssl_mode()).to_lowercase(),
        "tsa": format!("{:?}", c.get_target_session_attrs()), "cb": format!("{:?}", c.get_channel_binding()).to_lowercase(),
        "lbh": format!("{:?}", c.get_load_balance_hosts()).to_lowercase(),
    })
}

fn expected(e: &Value, case: &Value) -> Value {
    let opt = |k: &str| s_opt(&e[k]);
    let hosts: Vec<String> = if e["default_hosts"].as_bool().unwrap() {
        vec!["unix:/run/postgresql".into(), "unix:/var/run/postgresql".into(), "unix:/tmp".into()]
    } else {
        strs(&e["hosts"])
    };
    let keep = match case["keepalives"].as_str().unwrap() {
        "true" => true,
        "false" => false,
        _ => true,
    };
    let kidle = match e["kidle"].as_i64().unwrap() {
        -1 => 2 * 60 * 60,
        n => n as u64,
    };
    let tsa = match opt("tsa").as_deref() {
        None | Some("any") => "Any",
        Some("read-write") => "ReadWrite",
        Some(x) => return json!({"bad": x}),
    };
    json!({
        "user": opt("user"), "password": opt("password"), "dbname": opt("dbname"), "options": opt("options"), "app": opt("app"),
        "hosts": hosts, "ports": ints(&e["ports"]), "hostaddrs": strs(&e["hostaddrs"]),
        "ctimeout": e["ctimeout"].as_i64().unwrap(), "keepalives": keep, "kidle": kidle,
        "sslmode": opt("sslmode").unwrap_or_else(|| "prefer".into()), "tsa": tsa,
        "cb": opt("cb").unwrap_or_else(|| "prefer".into()), "lbh": opt("lbh").unwrap_or_else(|| "disable".into()),
    })
}

fn build(case: &Value) -> Config {
    let mut c = Config::new();
    if case["url"].as_u64().unwrap() > 0 {
        c.url = Some(case["urlstr"].as_str().unwrap().to_string());
    }
    c.user = s_opt(&case["user"]);
    c.password = s_opt(&case["password"]);
    c.dbname = s_opt(&case["dbname"]);
    c.options = s_opt(&case["options"]);
    c.application_name = s_opt(&case["app"]);
    c.host = s_opt(&case["host"]);
    if case["hosts_set"].as_bool().unwrap() {
        c.hosts = Some(strs(&case["hosts"]));
    }
    c.hostaddr = s_opt(&case["hostaddr"]).map(|s| s.parse().unwrap());
    if case["hostaddrs_set"].as_bool().unwrap() {
        c.hostaddrs = Some(strs(&case["hostaddrs"]).iter().map(|s| s.parse().unwrap()).collect());
    }
    if case["port"].as_i64().unwrap() >= 0 {
        c.port = Some(case["port"].as_i64().unwrap() as u16);
    }
    if case["ports_set"].as_bool().unwrap() {
        c.ports = Some(ints(&case["ports"]));
    }
    if case["ctimeout"].as_i64().unwrap() >= 0 {
        c.connect_timeout = Some(Duration::from_secs(case["ctimeout"].as_i64().unwrap() as u64));
    }
    c.keepalives = match case["keepalives"].as_str().unwrap() {
        "true" => Some(true),
        "false" => Some(false),
        _ => None,
    };
    if case["kidle"].as_i64().unwrap() >= 0 {
        c.keepalives_idle = Some(Duration::from_secs(case["kidle"].as_i64().unwrap() as u64));
    }
    c.ssl_mode = match s_opt(&case["sslmode"]).as_deref() {
        Some("disable") => Some(SslMode::Disable),
        Some("prefer") => Some(SslMode::Prefer),
        Some("require") => Some(SslMode::Require),
        _ => None,
    };
    c.target_session_attrs = match s_opt(&case["tsa"]).as_deref() {
        Some("any") => Some(TargetSessionAttrs::Any),
        Some("read-write") => Some(TargetSessionAttrs::ReadWrite),
        _ => None,
    };
    c.channel_binding = match s_opt(&case["cb"]).as_deref() {
        Some("disable") => Some(ChannelBinding::Disable),
        Some("prefer") => Some(ChannelBinding::Prefer),
        Some("require") => Some(ChannelBinding::Require),
        _ => None,
    };
    c.load_balance_hosts = match s_opt(&case["lbh"]).as_deref() {
        Some("disable") => Some(LoadBalanceHosts::Disable),
        Some("random") => Some(LoadBalanceHosts::Random),
        _ => None,
    };
    let pmax = case["poolmax"].as_i64().unwrap();
    let pwait = case["pwait"].as_str().unwrap();
    let pcreate = case["pcreate"].as_str().unwrap_or(U);
    let qmode = case["qmode"].as_str().unwrap_or(U);
    if pmax >= 0 || pwait != U || pcreate != U || qmode != U {
        let mut p = PoolConfig::default();
        match qmode {
            "Lifo" => p.queue_mode = deadpool::managed::QueueMode::Lifo,
            "Fifo" => p.queue_mode = deadpool::managed::QueueMode::Fifo,
            _ => {}
        }
        if pmax >= 0 {
            p.max_size = pmax as usize;
        }
        p.timeouts = Timeouts {
            wait: match pwait {
                "zero" => Some(Duration::ZERO),
                "finite" => Some(Duration::from_secs(5)),
                _ => None,
            },
            create: if pcreate == "finite" { Some(Duration::from_secs(7)) } else { None },
            recycle: None,
        };
        c.pool = Some(p);
    }
    c
}

fn check_table(case: &Value) -> Option<String> {
    // the URL parse results are constants of the specification: re-check them against the parser
    if case["url"].as_u64().unwrap() == 0 {
        return None;
    }
    let p = &case["parsed"];
    let r = tokio_postgres::Config::from_str(case["urlstr"].as_str().unwrap());
    match (r, p["valid"].as_bool().unwrap()) {
        (Err(_), false) => None,
        (Ok(_), false) => Some("table says invalid, parser accepts".into()),
        (Err(e), true) => Some(format!("table says valid, parser: {}", e)),
        (Ok(c), true) => {
            let got = render(&c);
            let want_hosts = strs(&p["hosts"]);
            let checks = [
                (got["user"].clone(), json!(s_opt(&p["user"]))),
                (got["password"].clone(), json!(s_opt(&p["password"]))),
                (got["dbname"].clone(), json!(s_opt(&p["dbname"]))),
                (got["options"].clone(), json!(s_opt(&p["options"]))),
                (got["app"].clone(), json!(s_opt(&p["app"]))),
                (got["hosts"].clone(), json!(want_hosts)),
                (got["ports"].clone(), json!(ints(&p["ports"]))),
                (got["hostaddrs"].clone(), json!(strs(&p["hostaddrs"]))),
                (got["ctimeout"].clone(), p["ctimeout"].clone()),
                (got["sslmode"].clone(), json!(s_opt(&p["sslmode"]).unwrap_or_else(|| "prefer".into()))),
                (got["cb"].clone(), json!(s_opt(&p["cb"]).unwrap_or_else(|| "prefer".into()))),
                (got["lbh"].clone(), json!(s_opt(&p["lbh"]).unwrap_or_else(|| "disable".into()))),
                (got["tsa"].clone(), json!(if s_opt(&p["tsa"]).as_deref() == Some("read-write") { "ReadWrite" } else { "Any" })),
            ];
            for (i, (g, w)) in checks.iter().enumerate() {
                if g != w {
                    return Some(format!("URL table entry {} field #{}: parser {} table {}", case["url"], i, g, w));
                }
            }
            None
        }
    }
}

fn one(case: &Value) -> Value {
    if let Some(t) = check_table(case) {
        return json!({"case": case, "ok": false, "table_error": t});
    }
    match s_opt(&case["envuser"]) {
        Some(u) => std::env::set_var("USER", u),
        None => std::env::remove_var("USER"),
    }
    let cfg = build(case);
    let e = &case["expect"];
    let r = std::panic::catch_unwind(|| cfg.get_pg_config());
    let (kind, got) = match &r {
        Err(_) => ("panic".to_string(), Value::Null),
        Ok(Err(ConfigError::InvalidUrl(_))) => ("InvalidUrl".into(), Value::Null),
        Ok(Err(ConfigError::DbnameMissing)) => ("DbnameMissing".into(), Value::Null),
        Ok(Err(ConfigError::DbnameEmpty)) => ("DbnameEmpty".into(), Value::Null),
        Ok(Ok(c)) => ("ok".into(), render(c)),
    };
    let mut problems = vec![];
    if kind != e["kind"].as_str().unwrap() {
        problems.push(format!("result: code {} spec {}", kind, e["kind"]));
    } else if kind == "ok" {
        let want = expected(e, case);
        for (k, w) in want.as_object().unwrap() {
            if &got[k] != w {
                problems.push(format!("{}: code {} spec {}", k, got[k], w));
            }
        }
    }
    // create_pool: pool section reaches the pool, timeouts without runtime are a build error
    let rt = if case["runtime"].as_bool().unwrap() { Some(Runtime::Tokio1) } else { None };
    let created = std::panic::catch_unwind(|| cfg.create_pool(rt, NoTls));
    let ckind = match &created {
        Err(_) => "panic",
        Ok(Err(CreatePoolError::Config(_))) => "config_error",
        Ok(Err(CreatePoolError::Build(_))) => "no_runtime",
        Ok(Ok(_)) => "ok",
    };
    if ckind != e["create"].as_str().unwrap() {
        problems.push(format!("create_pool: code {} spec {}", ckind, e["create"]));
    }
    if let Ok(Ok(pool)) = &created {
        let pm = e["poolmax"].as_i64().unwrap();
        let want_max = if pm >= 0 { pm as usize } else { PoolConfig::default().max_size };
        if pool.status().max_size != want_max {
            problems.push(format!("pool max_size: code {} spec {}", pool.status().max_size, want_max));
        }
        let want_wait = match case["pwait"].as_str().unwrap() {
            "zero" => Some(Duration::ZERO),
            "finite" => Some(Duration::from_secs(5)),
            _ => None,
        };
        if pool.timeouts().wait != want_wait {
            problems.push(format!("pool wait timeout: code {:?} spec {:?}", pool.timeouts().wait, want_wait));
        }
        let want_create = if case["pcreate"].as_str() == Some("finite") { Some(Duration::from_secs(7)) } else { None };
        if pool.timeouts().create != want_create {
            problems.push(format!("pool create timeout: code {:?} spec {:?}", pool.timeouts().create, want_create));
        }
        // the queue mode has no getter: the pool's Debug output shows its configuration
        let dbg = format!("{:?}", pool);
        let want_q = e["qmode"].as_str().unwrap_or("Fifo");
        if !dbg.contains(&format!("queue_mode: {}", want_q)) {
            problems.push(format!("pool queue_mode: spec {} but the pool says {}", want_q, if dbg.contains("queue_mode: Lifo") { "Lifo" } else if dbg.contains("queue_mode: Fifo") { "Fifo" } else { "nothing" }));
        }
    }
    json!({"case": case, "got": {"kind": kind, "cfg": got, "create": ckind}, "ok": problems.is_empty(), "problems": problems})
}

pub fn run(file: &str, out: Option<String>) {
    let f = std::io::BufReader::new(std::fs::File::open(file).expect("cases file"));
    let saved = std::env::var("USER").ok();
    let mut n = 0;
    let mut bad: Vec<Value> = vec![];
    let mut samples: Vec<Value> = vec![];
    let mut table_errors = 0;
    for l in f.lines() {
        let l = l.unwrap();
        if l.trim().is_empty() {
            continue;
        }
        let c: Value = serde_json::from_str(&l).expect("case json");
        let r = one(&c);
        n += 1;
        if r.get("table_error").is_some() {
            table_errors += 1;
        }
        if !r["ok"].as_bool().unwrap() {
            if bad.len() < 10 {
                bad.push(r.clone());
            } else {
                bad.push(Value::Null);
            }
        }
        if samples.len() < 3 && n % 97 == 1 {
            samples.push(r);
        }
    }
    if let Some(u) = saved {
        std::env::set_var("USER", u);
    }
    let nbad = bad.len();
    bad.retain(|b| !b.is_null());
    let summary = json!({"cases": n, "mismatch": nbad, "table_errors": table_errors, "first_mismatches": bad, "samples": samples});
    if let Some(o) = out {
        std::fs::write(o, serde_json::to_string_pretty(&summary).unwrap()).unwrap();
    }
    println!("{}", json!({"cases": n, "mismatch": nbad, "table_errors": table_errors}));
}
