#![recursion_limit = "512"]
mod common;
mod pgconfig;
mod pgmgr;
mod redisconfig;
mod redismgr;
mod syncmgr;

use std::io::BufRead;
use std::sync::Arc;

use common::*;

fn main() {
    let args: Vec<String> = std::env::args().collect();
    std::panic::set_hook(Box::new(|info| {
        let msg = info.payload().downcast_ref::<&str>().map(|s| s.to_string()).or_else(|| info.payload().downcast_ref::<String>().cloned()).unwrap_or_default();
        if msg != syncmgr::INJECTED && !msg.contains("PoisonError") && std::env::var_os("XH_SHOW_PANICS").is_some() {
            eprintln!("panic: {} at {:?}", msg, info.location());
        }
    }));
    match args.get(1).map(|s| s.as_str()) {
        Some("replay") => {
            let file = &args[2];
            let only: Option<u64> = arg_val(&args, "--only").and_then(|s| s.parse().ok());
            let head: serde_json::Value = {
                let f = std::io::BufReader::new(std::fs::File::open(file).expect("open paths"));
                serde_json::from_str(&f.lines().next().expect("header").unwrap()).expect("header json")
            };
            match head["kind"].as_str().unwrap_or("") {
                "syncmgr" => {
                    let (head, paths) = load_paths::<syncmgr::Post>(file, only);
                    let cfg: syncmgr::Cfg = serde_json::from_value(head["cfg"].clone()).expect("cfg");
                    let run: Runner<syncmgr::Post> = match cfg.backend.as_str() {
                        "r2d2" => Arc::new(move |p, obs| syncmgr::run_path::<syncmgr::R2d2>(&cfg, p, obs)),
                        "sqlite" => Arc::new(move |p, obs| syncmgr::run_path::<syncmgr::Sqlite>(&cfg, p, obs)),
                        "r2d2_rto" => Arc::new(move |p, obs| syncmgr::run_path::<syncmgr::R2d2Rto>(&cfg, p, obs)),
                        "sqlite_rto" => Arc::new(move |p, obs| syncmgr::run_path::<syncmgr::SqliteRto>(&cfg, p, obs)),
                        "diesel_verified" => Arc::new(move |p, obs| syncmgr::run_path::<syncmgr::DieselVerified>(&cfg, p, obs)),
                        "diesel_query" => Arc::new(move |p, obs| syncmgr::run_path::<syncmgr::DieselQuery>(&cfg, p, obs)),
                        "diesel_fn" => Arc::new(move |p, obs| syncmgr::run_path::<syncmgr::DieselFn>(&cfg, p, obs)),
                        _ => Arc::new(move |p, obs| syncmgr::run_path::<syncmgr::Diesel>(&cfg, p, obs)),
                    };
                    run_all(paths, run, &args[3..]);
                }
                "pgmgr" => {
                    let (head, paths) = load_paths::<pgmgr::Post>(file, only);
                    let cfg: pgmgr::Cfg = serde_json::from_value(head["cfg"].clone()).expect("cfg");
                    let run: Runner<pgmgr::Post> = Arc::new(move |p, obs| pgmgr::run_path(&cfg, p, obs));
                    run_all(paths, run, &args[3..]);
                }
                "redismgr" => {
                    let (head, paths) = load_paths::<redismgr::Post>(file, only);
                    let cfg: redismgr::Cfg = serde_json::from_value(head["cfg"].clone()).expect("cfg");
                    let run: Runner<redismgr::Post> = Arc::new(move |p, obs| redismgr::run_path(&cfg, p, obs));
                    run_all(paths, run, &args[3..]);
                }
                k => panic!("unknown kind {}", k),
            }
        }
        Some("cases") => match args[2].as_str() {
            "pgconfig" => pgconfig::run(&args[3], arg_val(&args, "--result")),
            "redisconfig" => redisconfig::run(&args[3], arg_val(&args, "--result")),
            k => panic!("unknown case kind {}", k),
        },
        _ => {
            eprintln!("usage: xh replay <paths.jsonl> ...");
            std::process::exit(2)
        }
    }
}
