//! Path files (same format as mh) and the parallel runner.
use std::io::{BufRead, Write};
use std::sync::atomic::{AtomicUsize, Ordering};
use std::sync::{Arc, Mutex};

use serde::de::DeserializeOwned;
use serde::{Deserialize, Serialize};
use serde_json::{json, Value};

#[derive(Clone, Debug, Deserialize)]
pub struct Step<P> {
    pub a: String,
    #[serde(default)]
    pub t: String,
    #[serde(default)]
    pub x: Vec<Value>,
    #[serde(default = "no_post")]
    pub post: Option<Arc<P>>,
}
fn no_post<P>() -> Option<Arc<P>> {
    None
}
#[derive(Clone, Debug, Deserialize)]
pub struct PathRec<P> {
    pub id: u64,
    pub steps: Vec<Step<P>>,
}
#[derive(Clone, Debug, Serialize, Default)]
pub struct PathResult {
    pub id: u64,
    pub steps: usize,
    pub conform: bool,
    pub hung: bool,
    pub div_step: Option<usize>,
    pub div_action: Option<String>,
    pub div_what: Vec<String>,
    pub skipped: usize,
    pub inconclusive: bool,
}

pub fn arg_val(args: &[String], name: &str) -> Option<String> {
    args.iter().position(|a| a == name).and_then(|i| args.get(i + 1).cloned())
}

pub fn load_paths<P: DeserializeOwned>(file: &str, only: Option<u64>) -> (Value, Vec<PathRec<P>>) {
    let f = std::io::BufReader::new(std::fs::File::open(file).expect("open paths"));
    let mut lines = f.lines();
    let head: Value = serde_json::from_str(&lines.next().expect("header").unwrap()).expect("header json");
    let mut labels: Vec<Step<P>> = vec![];
    let mut nodes: Vec<Arc<P>> = vec![];
    let mut paths: Vec<PathRec<P>> = vec![];
    for l in lines {
        let l = l.unwrap();
        if l.trim().is_empty() {
            continue;
        }
        let v: Value = serde_json::from_str(&l).expect("json line");
        if let Some(ls) = v.get("labels") {
            labels = serde_json::from_value(ls.clone()).expect("labels");
        } else if v.get("n").is_some() {
            nodes.push(Arc::new(serde_json::from_value(v["post"].clone()).expect("post")));
        } else if let Some(es) = v.get("e") {
            let id = v["id"].as_u64().unwrap();
            if !only.map(|o| o == id).unwrap_or(true) {
                continue;
            }
            let steps = es
                .as_array()
                .unwrap()
                .iter()
                .map(|p| {
                    let l = &labels[p[0].as_u64().unwrap() as usize];
                    Step { a: l.a.clone(), t: l.t.clone(), x: l.x.clone(), post: Some(nodes[p[1].as_u64().unwrap() as usize].clone()) }
                })
                .collect();
            paths.push(PathRec { id, steps });
        } else if v.get("steps").is_some() {
            let p: PathRec<P> = serde_json::from_value(v).expect("path json");
            if only.map(|o| o == p.id).unwrap_or(true) {
                paths.push(p);
            }
        }
    }
    (head, paths)
}

pub type Runner<P> = Arc<dyn Fn(&PathRec<P>, bool) -> (PathResult, Vec<String>) + Send + Sync>;

pub fn run_all<P: Send + Sync + 'static>(paths: Vec<PathRec<P>>, run: Runner<P>, args: &[String]) {
    let obs_file = arg_val(args, "--obs");
    let result_file = arg_val(args, "--result");
    let threads: usize = arg_val(args, "--threads").and_then(|s| s.parse().ok()).unwrap_or(4);
    let obs_sample: u64 = arg_val(args, "--obs-sample").and_then(|s| s.parse().ok()).unwrap_or(0);
    // --skip a,b,c: paths known to take the whole process down (the controller found them with --progress)
    let skip: Vec<u64> = arg_val(args, "--skip").map(|s| s.split(',').filter_map(|x| x.parse().ok()).collect()).unwrap_or_default();
    let paths: Vec<_> = paths.into_iter().filter(|p| !skip.contains(&p.id)).collect();
    // --progress FILE: "S id" before a path is executed, "E id" after: what was in flight if the process dies
    let progress: Option<Arc<Mutex<std::fs::File>>> =
        arg_val(args, "--progress").and_then(|f| std::fs::OpenOptions::new().create(true).append(true).open(f).ok()).map(|f| Arc::new(Mutex::new(f)));
    let paths = Arc::new(paths);
    let hangs = Arc::new(AtomicUsize::new(0));
    let next = Arc::new(AtomicUsize::new(0));
    let results = Arc::new(Mutex::new(Vec::new()));
    let obs_out = Arc::new(Mutex::new(Vec::<(u64, Vec<String>)>::new()));
    let t0 = std::time::Instant::now();
    let mut hs = vec![];
    for _ in 0..threads.max(1) {
        let (paths, next, results, obs_out, run) = (paths.clone(), next.clone(), results.clone(), obs_out.clone(), run.clone());
        let want_obs = obs_file.is_some();
        let progress = progress.clone();
        let hangs = hangs.clone();
        let mark = move |tag: &str, id: u64| {
            if let Some(f) = &progress {
                use std::io::Write;
                let _ = f.lock().unwrap().write_all(format!("{} {}\n", tag, id).as_bytes());
            }
        };
        hs.push(std::thread::spawn(move || loop {
            let i = next.fetch_add(1, Ordering::SeqCst);
            if i >= paths.len() {
                break;
            }
            // code that blocks where the unchanged code does not costs HANG_TIMEOUT per path: after a few dozen of
            // them the verdict on conformance is clear and the rest of the tour is not executed
            if hangs.load(Ordering::SeqCst) >= 30 {
                continue;
            }
            mark("S", paths[i].id);
            let sampled = obs_sample > 0 && (paths[i].id % obs_sample == 0);
            let (r, lines) = run(&paths[i], want_obs);
            if want_obs && (!r.conform || sampled) {
                obs_out.lock().unwrap().push((paths[i].id, lines));
            }
            if r.hung {
                hangs.fetch_add(1, Ordering::SeqCst);
            }
            results.lock().unwrap().push(r);
            mark("E", paths[i].id);
        }));
    }
    for h in hs {
        let _ = h.join();
    }
    let mut results = std::mem::take(&mut *results.lock().unwrap());
    results.sort_by_key(|r| r.id);
    let total = results.len();
    let conform = results.iter().filter(|r| r.conform).count();
    let summary = json!({
        "paths": total, "not_executed_after_hangs": paths.len() - total, "conform": conform, "nonconform": total - conform, "hung": 0,
        "inconclusive": results.iter().filter(|r| r.inconclusive).count(),
        "steps": results.iter().map(|r| r.steps).sum::<usize>(), "wall_s": t0.elapsed().as_secs_f64(),
        "first_divergences": results.iter().filter(|r| !r.conform).take(20).collect::<Vec<_>>(),
        "nonconform_ids": results.iter().filter(|r| !r.conform).map(|r| r.id).collect::<Vec<_>>(),
    });
    if let Some(rf) = result_file {
        std::fs::write(rf, serde_json::to_string_pretty(&summary).unwrap()).unwrap();
    }
    if let Some(of) = obs_file {
        let mut all = std::mem::take(&mut *obs_out.lock().unwrap());
        all.sort_by_key(|x| x.0);
        let mut f = std::io::BufWriter::new(std::fs::File::create(of).unwrap());
        for (_, ls) in all {
            for l in ls {
                writeln!(f, "{}", l).unwrap();
            }
        }
    }
    println!("{}", json!({"paths": total, "conform": conform}));
    std::process::exit(0);
}
