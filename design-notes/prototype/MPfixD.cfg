SPECIFICATION Spec
CONSTANTS
  Tasks = {t1, t2, t3}
  InitMax = 2
  MaxObjs = 3
  Budget = 5
  ResizeTargets = {0, 1, 3}
  Lifo = FALSE
  AllowResize = TRUE
  AllowClose = TRUE
  AllowCancel = TRUE
  AllowFail = TRUE
INVARIANTS NoPanic NoStranded RestD ClosedEmpty SizeExact
PROPERTY Admission
CHECK_DEADLOCK FALSE
