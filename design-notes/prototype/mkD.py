import re
s=open('MP.tla').read()
s=s.replace('MODULE MP ','MODULE MPfixD ')
def replace_def(s,name,new):
    m=re.search(r'^'+name+r'\(t[^)]*\) ==[^\n]*\n',s,re.M)
    assert m, name
    start=m.start()
    m2=re.search(r'^(?:[A-Z][A-Za-z]*(?:\([^)]*\))? ==|\\\*|$)',s[m.end():],re.M)
    end=m.end()+m2.start()
    return s[:start]+new+s[end:]
U='permits, closed, waitq, handed, idle, size, maxSize, lock, users, pc, hand, held, cont, arg, nextObj, alive, detached, budget, panicked'
def unch(*changed):
    vs=[v.strip() for v in U.split(',') if v.strip() not in changed]
    return '  /\\ UNCHANGED <<'+', '.join(vs)+'>>\n'
s=replace_def(s,'GPop','''GPop(t) ==
  /\\ pc[t] = "g_pop" /\\ lock = None
  /\\ IF idle # <<>>
     THEN LET o == IF Lifo THEN idle[Len(idle)] ELSE Head(idle) IN
          /\\ idle' = IF Lifo THEN SubSeq(idle, 1, Len(idle)-1) ELSE Tail(idle)
          /\\ hand' = [hand EXCEPT ![t] = o] /\\ Goto(t, "r_await") /\\ UNCHANGED size
     ELSE IF size < maxSize
     THEN /\\ size' = size + 1 /\\ Goto(t, "c_await") /\\ UNCHANGED <<idle, hand>>      \\* reserve the slot
     ELSE /\\ Goto(t, "g_acq") /\\ UNCHANGED <<idle, hand, size>>                          \\* stale permit: forget it, acquire again
'''+unch('pc','idle','hand','size'))
s=replace_def(s,'CreateOk','''CreateOk(t) ==
  /\\ pc[t] = "c_await" /\\ nextObj <= MaxObjs
  /\\ hand' = [hand EXCEPT ![t] = nextObj] /\\ alive' = alive \\cup {nextObj} /\\ nextObj' = nextObj + 1
  /\\ Goto(t, "pc_await")
'''+unch('pc','hand','alive','nextObj'))
s=replace_def(s,'CreateErr','''CreateErr(t) ==
  /\\ AllowFail /\\ pc[t] = "c_await" /\\ Goto(t, "u_resv")
'''+unch('pc'))
s=replace_def(s,'CreateCancel','''CreateCancel(t) ==
  /\\ AllowCancel /\\ pc[t] = "c_await" /\\ Goto(t, "u_resv")
'''+unch('pc'))
s=replace_def(s,'CSize','''CSize(t) ==
  /\\ pc[t] = "u_resv" /\\ lock = None /\\ size' = size - 1 /\\ panicked' = (panicked \\/ size = 0) /\\ Goto(t, "x_permit")
'''+unch('pc','size','panicked'))
s=replace_def(s,'RsChk','''RsChk(t) ==
  /\\ pc[t] = "rs_chk" /\\ Goto(t, "rs_lock")
'''+unch('pc'))
s=replace_def(s,'RsLock','''RsLock(t) ==
  /\\ pc[t] = "rs_lock" /\\ lock = None
  /\\ IF closed /\\ cont[t] # "cl_close" THEN /\\ Goto(t, "idle") /\\ cont' = [cont EXCEPT ![t] = "none"] /\\ UNCHANGED <<lock, maxSize, hand, closed, waitq, idle, size, alive, detached>>
     ELSE IF cont[t] = "cl_close"
     THEN /\\ closed' = TRUE /\\ waitq' = <<>> /\\ maxSize' = 0
          /\\ idle' = <<>> /\\ size' = size - Len(idle)
          /\\ alive' = alive \\ {idle[i] : i \\in 1..Len(idle)} /\\ detached' = detached \\cup {idle[i] : i \\in 1..Len(idle)}
          /\\ Goto(t, "idle") /\\ cont' = [cont EXCEPT ![t] = "none"] /\\ UNCHANGED <<lock, hand>>
     ELSE /\\ lock' = t /\\ maxSize' = arg[t]
          /\\ Goto(t, IF arg[t] < maxSize THEN "rs_shrink" ELSE IF arg[t] > maxSize THEN "rs_grow" ELSE "rs_unlock")
          /\\ hand' = [hand EXCEPT ![t] = IF arg[t] < maxSize THEN maxSize - arg[t] ELSE arg[t] - maxSize]
          /\\ UNCHANGED <<cont, closed, waitq, idle, size, alive, detached>>
'''+unch('pc','lock','maxSize','hand','cont','closed','waitq','idle','size','alive','detached'))
s=replace_def(s,'RsShrink','''RsShrink(t) ==
  /\\ pc[t] = "rs_shrink"
  /\\ IF hand[t] > 0 /\\ permits > 0 /\\ ~closed
     THEN /\\ permits' = permits - 1 /\\ hand' = [hand EXCEPT ![t] = @ - 1] /\\ UNCHANGED <<pc, idle, size, alive, detached>>
     ELSE LET k == IF size - maxSize > Len(idle) THEN Len(idle) ELSE IF size > maxSize THEN size - maxSize ELSE 0 IN
          /\\ idle' = SubSeq(idle, k+1, Len(idle)) /\\ size' = size - k
          /\\ alive' = alive \\ {idle[i] : i \\in 1..k} /\\ detached' = detached \\cup {idle[i] : i \\in 1..k}
          /\\ hand' = [hand EXCEPT ![t] = 0] /\\ Goto(t, "rs_unlock") /\\ UNCHANGED permits
'''+unch('pc','permits','hand','idle','size','alive','detached'))
s=replace_def(s,'RsGrow','''RsGrow(t) ==
  /\\ pc[t] = "rs_grow"
  /\\ LET add == hand[t] IN
       LET k == IF Len(waitq) < add THEN Len(waitq) ELSE add IN
       /\\ handed' = handed \\cup {waitq[i] : i \\in 1..k}
       /\\ waitq' = SubSeq(waitq, k+1, Len(waitq))
       /\\ permits' = permits + (add - k)
  /\\ Goto(t, "rs_unlock")
'''+unch('pc','handed','waitq','permits'))
s=s.replace('InHand == {hand[t] : t \\in {x \\in Tasks : pc[x] \\in {"r_await","u_size","u_detach","c_size","pc_await"','InHand == {hand[t] : t \\in {x \\in Tasks : pc[x] \\in {"r_await","u_size","u_detach","pc_await"')
s=s.replace('Taking == {hand[t] : t \\in {x \\in Tasks : pc[x] \\in {"tk_users","tk_lock","tk_add","tk_detach"}}}','Taking == {hand[t] : t \\in {x \\in Tasks : pc[x] \\in {"tk_users","tk_lock","tk_add","tk_detach","ret_detach","u_detach"}}}')
s=s.replace('====','''
Free == Len(idle) + (IF maxSize > size THEN maxSize - size ELSE 0)
WaitQuiescent == (\\A t \\in Tasks : pc[t] \\in {"idle","g_wait"}) /\\ handed = {}
NoStranded == (WaitQuiescent /\\ waitq # <<>> /\\ ~closed) => Free = 0
RestD == (Quiescent /\\ Out = {} /\\ ~closed) => (users = 0 /\\ size = Len(idle) /\\ size <= maxSize /\\ permits >= maxSize)
ClosedEmpty == (closed /\\ Quiescent) => (idle = <<>> /\\ maxSize = 0)
SizeExact == (lock = None) => size = Len(idle) + Cardinality(Out) + Cardinality({t \\in Tasks : pc[t] \\in {"c_await","u_resv","pc_await","r_await","u_size","g_done","ret_users","ret_lock","tk_users","tk_lock"}})
Admission == [][size' > size => size' <= maxSize']_vars
====''')
open('MPfixD.tla','w').write(s)
