SPECIFICATION Spec
CONSTANTS
  Tasks = {t1, t2}
  InitMax = 1
  MaxObjs = 3
  Budget = 4
  ResizeTargets = {}
  Lifo = FALSE
  AllowResize = FALSE
  AllowClose = FALSE
  AllowCancel = TRUE
  AllowFail = TRUE
INVARIANTS NoPanic C01 C02rest
CHECK_DEADLOCK FALSE
