---------------------------- MODULE MP ----------------------------
(* PROTOTYPE (scratch): managed pool at thread-level granularity *)
EXTENDS Integers, Sequences, FiniteSets, TLC

CONSTANTS Tasks, InitMax, MaxObjs, Budget, ResizeTargets, Lifo, AllowResize, AllowClose, AllowCancel, AllowFail

None == 0
Objs == 1..MaxObjs

VARIABLES permits, closed, waitq, handed,      \* tokio semaphore
          idle, size, maxSize, lock,            \* Slots + mutex holder
          users,
          pc, hand, held, cont, arg,            \* per task
          nextObj, alive, detached, budget, panicked

vars == <<permits, closed, waitq, handed, idle, size, maxSize, lock, users, pc, hand, held, cont, arg, nextObj, alive, detached, budget, panicked>>

Init ==
  /\ permits = InitMax /\ closed = FALSE /\ waitq = <<>> /\ handed = {}
  /\ idle = <<>> /\ size = 0 /\ maxSize = InitMax /\ lock = None
  /\ users = 0
  /\ pc = [t \in Tasks |-> "idle"] /\ hand = [t \in Tasks |-> None] /\ held = [t \in Tasks |-> {}]
  /\ cont = [t \in Tasks |-> "none"] /\ arg = [t \in Tasks |-> 0]
  /\ nextObj = 1 /\ alive = {} /\ detached = {} /\ budget = Budget /\ panicked = FALSE

\* ---- semaphore helpers (each is one atomic tokio call)
Release ==  \* add_permits(1)
  IF waitq # <<>> THEN /\ handed' = handed \cup {Head(waitq)} /\ waitq' = Tail(waitq) /\ UNCHANGED permits
  ELSE /\ permits' = permits + 1 /\ UNCHANGED <<waitq, handed>>

SeqRemove(s, x) == SelectSeq(s, LAMBDA y : y # x)

Goto(t, l) == pc' = [pc EXCEPT ![t] = l]

\* ---- operations start
StartGet(t, nb) ==
  /\ pc[t] = "idle" /\ budget > 0 /\ budget' = budget - 1
  /\ Goto(t, "g_users") /\ arg' = [arg EXCEPT ![t] = nb]
  /\ UNCHANGED <<permits, closed, waitq, handed, idle, size, maxSize, lock, users, hand, held, cont, nextObj, alive, detached, panicked>>

GUsers(t) ==
  /\ pc[t] = "g_users" /\ users' = users + 1 /\ Goto(t, "g_acq")
  /\ UNCHANGED <<permits, closed, waitq, handed, idle, size, maxSize, lock, hand, held, cont, arg, nextObj, alive, detached, budget, panicked>>

GAcq(t) ==
  /\ pc[t] = "g_acq"
  /\ IF closed THEN /\ Goto(t, "x_users") /\ UNCHANGED <<permits, waitq, handed>>
     ELSE IF permits > 0 THEN /\ permits' = permits - 1 /\ Goto(t, "g_pop") /\ UNCHANGED <<waitq, handed>>
     ELSE IF arg[t] = 1 THEN /\ Goto(t, "x_users") /\ UNCHANGED <<permits, waitq, handed>>
     ELSE /\ waitq' = Append(waitq, t) /\ Goto(t, "g_wait") /\ UNCHANGED <<permits, handed>>
  /\ UNCHANGED <<closed, idle, size, maxSize, lock, users, hand, held, cont, arg, nextObj, alive, detached, budget, panicked>>

\* woken (handed or closed) and polled
GWaitPoll(t) ==
  /\ pc[t] = "g_wait"
  /\ \/ /\ closed /\ t \in handed          \* sees CLOSED, Acquire::drop re-releases the assigned permit
        /\ handed' = handed \ {t} /\ permits' = permits + 1 /\ Goto(t, "x_users") /\ UNCHANGED waitq
     \/ /\ closed /\ t \notin handed
        /\ Goto(t, "x_users") /\ UNCHANGED <<handed, permits, waitq>>
     \/ /\ ~closed /\ t \in handed
        /\ handed' = handed \ {t} /\ Goto(t, "g_pop") /\ UNCHANGED <<permits, waitq>>
  /\ UNCHANGED <<closed, idle, size, maxSize, lock, users, hand, held, cont, arg, nextObj, alive, detached, budget, panicked>>

GWaitCancel(t) ==
  /\ AllowCancel /\ pc[t] = "g_wait"
  /\ IF t \in handed
     THEN /\ LET h == handed \ {t} IN
             IF waitq # <<>> THEN /\ handed' = h \cup {Head(waitq)} /\ waitq' = Tail(waitq) /\ UNCHANGED permits
             ELSE /\ handed' = h /\ permits' = permits + 1 /\ UNCHANGED waitq
     ELSE /\ waitq' = SeqRemove(waitq, t) /\ UNCHANGED <<handed, permits>>
  /\ Goto(t, "x_users")
  /\ UNCHANGED <<closed, idle, size, maxSize, lock, users, hand, held, cont, arg, nextObj, alive, detached, budget, panicked>>

GPop(t) ==
  /\ pc[t] = "g_pop" /\ lock = None
  /\ IF idle # <<>>
     THEN LET o == IF Lifo THEN idle[Len(idle)] ELSE Head(idle) IN
          /\ idle' = IF Lifo THEN SubSeq(idle, 1, Len(idle)-1) ELSE Tail(idle)
          /\ hand' = [hand EXCEPT ![t] = o] /\ Goto(t, "r_await")
     ELSE /\ Goto(t, "c_await") /\ UNCHANGED <<idle, hand>>
  /\ UNCHANGED <<permits, closed, waitq, handed, size, maxSize, lock, users, held, cont, arg, nextObj, alive, detached, budget, panicked>>

\* recycle gate: ok / err / cancel
RecycleOk(t) ==
  /\ pc[t] = "r_await" /\ Goto(t, "g_done")
  /\ UNCHANGED <<permits, closed, waitq, handed, idle, size, maxSize, lock, users, hand, held, cont, arg, nextObj, alive, detached, budget, panicked>>
RecycleErr(t) ==
  /\ AllowFail /\ pc[t] = "r_await" /\ Goto(t, "u_size") /\ cont' = [cont EXCEPT ![t] = "g_pop"]
  /\ UNCHANGED <<permits, closed, waitq, handed, idle, size, maxSize, lock, users, hand, held, arg, nextObj, alive, detached, budget, panicked>>
RecycleCancel(t) ==
  /\ AllowCancel /\ pc[t] = "r_await" /\ Goto(t, "u_size") /\ cont' = [cont EXCEPT ![t] = "x_permit"]
  /\ UNCHANGED <<permits, closed, waitq, handed, idle, size, maxSize, lock, users, hand, held, arg, nextObj, alive, detached, budget, panicked>>

USize(t) ==
  /\ pc[t] = "u_size" /\ lock = None
  /\ size' = size - 1 /\ panicked' = (panicked \/ size = 0)
  /\ Goto(t, "u_detach")
  /\ UNCHANGED <<permits, closed, waitq, handed, idle, maxSize, lock, users, hand, held, cont, arg, nextObj, alive, detached, budget>>
UDetach(t) ==
  /\ pc[t] = "u_detach"
  /\ detached' = detached \cup {hand[t]} /\ alive' = alive \ {hand[t]}
  /\ hand' = [hand EXCEPT ![t] = None] /\ Goto(t, cont[t]) /\ cont' = [cont EXCEPT ![t] = "none"]
  /\ UNCHANGED <<permits, closed, waitq, handed, idle, size, maxSize, lock, users, held, arg, nextObj, budget, panicked>>

CreateOk(t) ==
  /\ pc[t] = "c_await" /\ nextObj <= MaxObjs
  /\ hand' = [hand EXCEPT ![t] = nextObj] /\ alive' = alive \cup {nextObj} /\ nextObj' = nextObj + 1
  /\ Goto(t, "c_size")
  /\ UNCHANGED <<permits, closed, waitq, handed, idle, size, maxSize, lock, users, held, cont, arg, detached, budget, panicked>>
CreateErr(t) ==
  /\ AllowFail /\ pc[t] = "c_await" /\ Goto(t, "x_permit")
  /\ UNCHANGED <<permits, closed, waitq, handed, idle, size, maxSize, lock, users, hand, held, cont, arg, nextObj, alive, detached, budget, panicked>>
CreateCancel(t) ==
  /\ AllowCancel /\ pc[t] = "c_await" /\ Goto(t, "x_permit")
  /\ UNCHANGED <<permits, closed, waitq, handed, idle, size, maxSize, lock, users, hand, held, cont, arg, nextObj, alive, detached, budget, panicked>>
CSize(t) ==
  /\ pc[t] = "c_size" /\ lock = None /\ size' = size + 1 /\ Goto(t, "pc_await")
  /\ UNCHANGED <<permits, closed, waitq, handed, idle, maxSize, lock, users, hand, held, cont, arg, nextObj, alive, detached, budget, panicked>>
PostCreateOk(t) ==
  /\ pc[t] = "pc_await" /\ Goto(t, "g_done")
  /\ UNCHANGED <<permits, closed, waitq, handed, idle, size, maxSize, lock, users, hand, held, cont, arg, nextObj, alive, detached, budget, panicked>>
PostCreateErrOrCancel(t) ==
  /\ (AllowFail \/ AllowCancel) /\ pc[t] = "pc_await" /\ Goto(t, "u_size") /\ cont' = [cont EXCEPT ![t] = "x_permit"]
  /\ UNCHANGED <<permits, closed, waitq, handed, idle, size, maxSize, lock, users, hand, held, arg, nextObj, alive, detached, budget, panicked>>

GDone(t) ==
  /\ pc[t] = "g_done"
  /\ held' = [held EXCEPT ![t] = @ \cup {hand[t]}] /\ hand' = [hand EXCEPT ![t] = None] /\ Goto(t, "idle")
  /\ UNCHANGED <<permits, closed, waitq, handed, idle, size, maxSize, lock, users, cont, arg, nextObj, alive, detached, budget, panicked>>

XPermit(t) ==
  /\ pc[t] = "x_permit" /\ Release /\ Goto(t, "x_users")
  /\ UNCHANGED <<closed, idle, size, maxSize, lock, users, hand, held, cont, arg, nextObj, alive, detached, budget, panicked>>
XUsers(t) ==
  /\ pc[t] = "x_users" /\ users' = users - 1 /\ Goto(t, "idle")
  /\ UNCHANGED <<permits, closed, waitq, handed, idle, size, maxSize, lock, hand, held, cont, arg, nextObj, alive, detached, budget, panicked>>

\* ---- return
StartReturn(t, o) ==
  /\ pc[t] = "idle" /\ o \in held[t]
  /\ held' = [held EXCEPT ![t] = @ \ {o}] /\ hand' = [hand EXCEPT ![t] = o] /\ Goto(t, "ret_users")
  /\ UNCHANGED <<permits, closed, waitq, handed, idle, size, maxSize, lock, users, cont, arg, nextObj, alive, detached, budget, panicked>>
RetUsers(t) ==
  /\ pc[t] = "ret_users" /\ users' = users - 1 /\ Goto(t, "ret_lock")
  /\ UNCHANGED <<permits, closed, waitq, handed, idle, size, maxSize, lock, hand, held, cont, arg, nextObj, alive, detached, budget, panicked>>
RetLock(t) ==
  /\ pc[t] = "ret_lock" /\ lock = None
  /\ IF size <= maxSize
     THEN /\ idle' = Append(idle, hand[t]) /\ hand' = [hand EXCEPT ![t] = None] /\ Goto(t, "ret_add") /\ UNCHANGED size
     ELSE /\ size' = size - 1 /\ Goto(t, "ret_detach") /\ UNCHANGED <<idle, hand>>
  /\ UNCHANGED <<permits, closed, waitq, handed, maxSize, lock, users, held, cont, arg, nextObj, alive, detached, budget, panicked>>
RetAdd(t) ==
  /\ pc[t] = "ret_add" /\ Release /\ Goto(t, "idle")
  /\ UNCHANGED <<closed, idle, size, maxSize, lock, users, hand, held, cont, arg, nextObj, alive, detached, budget, panicked>>
RetDetach(t) ==
  /\ pc[t] = "ret_detach"
  /\ detached' = detached \cup {hand[t]} /\ alive' = alive \ {hand[t]} /\ hand' = [hand EXCEPT ![t] = None] /\ Goto(t, "idle")
  /\ UNCHANGED <<permits, closed, waitq, handed, idle, size, maxSize, lock, users, held, cont, arg, nextObj, budget, panicked>>

\* ---- take
StartTake(t, o) ==
  /\ pc[t] = "idle" /\ o \in held[t] /\ budget > 0 /\ budget' = budget - 1
  /\ held' = [held EXCEPT ![t] = @ \ {o}] /\ hand' = [hand EXCEPT ![t] = o] /\ Goto(t, "tk_users")
  /\ UNCHANGED <<permits, closed, waitq, handed, idle, size, maxSize, lock, users, cont, arg, nextObj, alive, detached, panicked>>
TkUsers(t) ==
  /\ pc[t] = "tk_users" /\ users' = users - 1 /\ Goto(t, "tk_lock")
  /\ UNCHANGED <<permits, closed, waitq, handed, idle, size, maxSize, lock, hand, held, cont, arg, nextObj, alive, detached, budget, panicked>>
TkLock(t) ==
  /\ pc[t] = "tk_lock" /\ lock = None
  /\ size' = size - 1 /\ Goto(t, IF size <= maxSize THEN "tk_add" ELSE "tk_detach")
  /\ UNCHANGED <<permits, closed, waitq, handed, idle, maxSize, lock, users, hand, held, cont, arg, nextObj, alive, detached, budget, panicked>>
TkAdd(t) ==
  /\ pc[t] = "tk_add" /\ Release /\ Goto(t, "tk_detach")
  /\ UNCHANGED <<closed, idle, size, maxSize, lock, users, hand, held, cont, arg, nextObj, alive, detached, budget, panicked>>
TkDetach(t) ==
  /\ pc[t] = "tk_detach"
  /\ detached' = detached \cup {hand[t]} /\ alive' = alive \ {hand[t]} /\ hand' = [hand EXCEPT ![t] = None] /\ Goto(t, "idle")
  /\ UNCHANGED <<permits, closed, waitq, handed, idle, size, maxSize, lock, users, held, cont, arg, nextObj, budget, panicked>>

\* ---- resize / close
StartResize(t, n, isClose) ==
  /\ pc[t] = "idle" /\ budget > 0 /\ budget' = budget - 1
  /\ IF isClose THEN AllowClose ELSE AllowResize
  /\ arg' = [arg EXCEPT ![t] = n] /\ cont' = [cont EXCEPT ![t] = IF isClose THEN "cl_close" ELSE "idle"]
  /\ Goto(t, "rs_chk")
  /\ UNCHANGED <<permits, closed, waitq, handed, idle, size, maxSize, lock, users, hand, held, nextObj, alive, detached, panicked>>
RsChk(t) ==
  /\ pc[t] = "rs_chk"
  /\ IF closed THEN Goto(t, cont[t]) ELSE Goto(t, "rs_lock")
  /\ UNCHANGED <<permits, closed, waitq, handed, idle, size, maxSize, lock, users, hand, held, cont, arg, nextObj, alive, detached, budget, panicked>>
RsLock(t) ==   \* take lock, set max_size; old max kept in hand[t] slot? use separate: store old in cont? keep simple: compute branch now
  /\ pc[t] = "rs_lock" /\ lock = None
  /\ lock' = t /\ maxSize' = arg[t]
  /\ Goto(t, IF arg[t] < maxSize THEN "rs_shrink" ELSE IF arg[t] > maxSize THEN "rs_grow" ELSE "rs_unlock")
  /\ hand' = [hand EXCEPT ![t] = maxSize]   \* old max (reuse slot; harmless because task holds nothing in hand)
  /\ UNCHANGED <<permits, closed, waitq, handed, idle, size, users, held, cont, arg, nextObj, alive, detached, budget, panicked>>
RsShrink(t) ==
  /\ pc[t] = "rs_shrink"
  /\ IF size > maxSize /\ permits > 0 /\ ~closed
     THEN /\ permits' = permits - 1
          /\ IF idle # <<>> THEN /\ idle' = Tail(idle) /\ size' = size - 1 /\ alive' = alive \ {Head(idle)}
             ELSE UNCHANGED <<idle, size, alive>>
          /\ UNCHANGED pc
     ELSE /\ Goto(t, "rs_unlock") /\ UNCHANGED <<permits, idle, size, alive>>
  /\ UNCHANGED <<closed, waitq, handed, maxSize, lock, users, hand, held, cont, arg, nextObj, detached, budget, panicked>>
RsGrow(t) ==
  /\ pc[t] = "rs_grow"
  /\ LET add == maxSize - hand[t] IN
       \* add_permits(add): hand to waiters first
       LET k == IF Len(waitq) < add THEN Len(waitq) ELSE add IN
       /\ handed' = handed \cup {waitq[i] : i \in 1..k}
       /\ waitq' = SubSeq(waitq, k+1, Len(waitq))
       /\ permits' = permits + (add - k)
  /\ Goto(t, "rs_unlock")
  /\ UNCHANGED <<closed, idle, size, maxSize, lock, users, hand, held, cont, arg, nextObj, alive, detached, budget, panicked>>
RsUnlock(t) ==
  /\ pc[t] = "rs_unlock" /\ lock' = None /\ hand' = [hand EXCEPT ![t] = None]
  /\ Goto(t, cont[t]) /\ cont' = [cont EXCEPT ![t] = "none"]
  /\ UNCHANGED <<permits, closed, waitq, handed, idle, size, maxSize, users, held, arg, nextObj, alive, detached, budget, panicked>>
ClClose(t) ==
  /\ pc[t] = "cl_close" /\ closed' = TRUE /\ waitq' = <<>> /\ Goto(t, "idle")
  /\ UNCHANGED <<permits, handed, idle, size, maxSize, lock, users, hand, held, cont, arg, nextObj, alive, detached, budget, panicked>>

Step(t) ==
  \/ \E nb \in {0,1} : StartGet(t, nb)
  \/ GUsers(t) \/ GAcq(t) \/ GWaitPoll(t) \/ GWaitCancel(t) \/ GPop(t)
  \/ RecycleOk(t) \/ RecycleErr(t) \/ RecycleCancel(t) \/ USize(t) \/ UDetach(t)
  \/ CreateOk(t) \/ CreateErr(t) \/ CreateCancel(t) \/ CSize(t) \/ PostCreateOk(t) \/ PostCreateErrOrCancel(t)
  \/ GDone(t) \/ XPermit(t) \/ XUsers(t)
  \/ \E o \in held[t] : StartReturn(t, o) \/ StartTake(t, o)
  \/ RetUsers(t) \/ RetLock(t) \/ RetAdd(t) \/ RetDetach(t)
  \/ TkUsers(t) \/ TkLock(t) \/ TkAdd(t) \/ TkDetach(t)
  \/ \E n \in ResizeTargets : StartResize(t, n, FALSE)
  \/ StartResize(t, 0, TRUE)
  \/ RsChk(t) \/ RsLock(t) \/ RsShrink(t) \/ RsGrow(t) \/ RsUnlock(t) \/ ClClose(t)

Next == \E t \in Tasks : Step(t)
Spec == Init /\ [][Next]_vars

\* ---- ground truth & properties
InHand == {hand[t] : t \in {x \in Tasks : pc[x] \in {"r_await","u_size","u_detach","c_size","pc_await","g_done","ret_users","ret_lock","ret_detach"}}} \ {None}
Out == UNION {held[t] : t \in Tasks}
Taking == {hand[t] : t \in {x \in Tasks : pc[x] \in {"tk_users","tk_lock","tk_add","tk_detach"}}}
Live == alive \ Taking
Creating == {t \in Tasks : pc[t] = "c_await"}
NoPanic == ~panicked
C01 == Cardinality(Live) + Cardinality(Creating) <= InitMax
Quiescent == \A t \in Tasks : pc[t] = "idle"
C02rest == (Quiescent /\ Out = {} /\ ~closed) => (permits = maxSize /\ users = 0 /\ size = Len(idle))
UsersExact == TRUE
C07 == Cardinality(Live) + Cardinality(Creating) <= 3  \* placeholder
====
