use deadpool::managed::{self, Metrics, Pool, RecycleResult};
use std::future::Future;
use std::sync::atomic::{AtomicUsize, Ordering};
use std::sync::{Arc, Condvar, Mutex};
use std::task::{Context, Poll, Wake, Waker};

// a one-shot pause: the hooked thread parks at `site` until released
#[derive(Default)]
struct Pause { st: Mutex<(bool, bool)>, cv: Condvar } // (reached, released)
impl Pause {
    fn wait_reached(&self) { let mut g = self.st.lock().unwrap(); while !g.0 { g = self.cv.wait(g).unwrap(); } }
    fn release(&self) { self.st.lock().unwrap().1 = true; self.cv.notify_all(); }
    fn hook(self: &Arc<Self>, site: &'static str) -> Box<dyn FnMut(&'static str)> {
        let p = self.clone(); let mut done = false;
        Box::new(move |s| { if s == site && !done { done = true; let mut g = p.st.lock().unwrap(); g.0 = true; p.cv.notify_all(); while !g.1 { g = p.cv.wait(g).unwrap(); } } })
    }
}
struct M { created: AtomicUsize, detached: AtomicUsize }
impl managed::Manager for M {
    type Type = usize; type Error = ();
    async fn create(&self) -> Result<usize, ()> { Ok(self.created.fetch_add(1, Ordering::SeqCst)) }
    async fn recycle(&self, _: &mut usize, _: &Metrics) -> RecycleResult<()> { Ok(()) }
    fn detach(&self, _: &mut usize) { self.detached.fetch_add(1, Ordering::SeqCst); }
}
struct W; impl Wake for W { fn wake(self: Arc<Self>) {} }
fn block_on<F: Future>(f: F) -> F::Output { let w = Waker::from(Arc::new(W)); let mut cx = Context::from_waker(&w); let mut f = Box::pin(f); loop { if let Poll::Ready(r) = f.as_mut().poll(&mut cx) { return r; } std::thread::yield_now(); } }

fn main() {
    // D2: return_object (pushed, unlocked) || close()
    let pool: Pool<M> = Pool::builder(M{created:AtomicUsize::new(0), detached:AtomicUsize::new(0)}).max_size(1).build().unwrap();
    let obj = block_on(pool.get()).unwrap();
    let p = Arc::new(Pause::default());
    let p2 = p.clone();
    let h = std::thread::spawn(move || { deadpool::verif::set_hook(Some(p2.hook("managed.ret.add"))); drop(obj); });
    p.wait_reached();
    pool.close();
    p.release(); h.join().unwrap();
    println!("D2 closed={} status={:?} detached={}", pool.is_closed(), pool.status(), pool.manager().detached.load(Ordering::SeqCst));

    // D2b: resize(1) racing between resize(0) and semaphore.close() of close()
    let pool: Pool<M> = Pool::builder(M{created:AtomicUsize::new(0), detached:AtomicUsize::new(0)}).max_size(1).build().unwrap();
    let obj = block_on(pool.get()).unwrap();
    let p = Arc::new(Pause::default()); let p2 = p.clone(); let pc = pool.clone();
    let h = std::thread::spawn(move || { deadpool::verif::set_hook(Some(p2.hook("managed.close.sem"))); pc.close(); });
    p.wait_reached();
    pool.resize(1);
    p.release(); h.join().unwrap();
    drop(obj);
    println!("D2b closed={} status={:?}", pool.is_closed(), pool.status());

    // D6: unmanaged try_get holds permit || close()
    let up = deadpool::unmanaged::Pool::from(vec![1u32]);
    let p = Arc::new(Pause::default()); let p2 = p.clone(); let upc = up.clone();
    let h = std::thread::spawn(move || { deadpool::verif::set_hook(Some(p2.hook("unmanaged.get.pop"))); let r = std::panic::catch_unwind(std::panic::AssertUnwindSafe(|| upc.try_get().map(|o| *o))); r.is_err() });
    p.wait_reached();
    up.close();
    p.release();
    let panicked = h.join().unwrap();
    let later = std::panic::catch_unwind(std::panic::AssertUnwindSafe(|| up.try_get().map(|o| *o).map_err(|e| format!("{:?}", e))));
    println!("D6 try_get panicked={} later call panicked={}", panicked, later.is_err());

    // D7: unmanaged try_add past size_semaphore || close()
    let up = deadpool::unmanaged::Pool::<u32>::new(1);
    let p = Arc::new(Pause::default()); let p2 = p.clone(); let upc = up.clone();
    let h = std::thread::spawn(move || { deadpool::verif::set_hook(Some(p2.hook("unmanaged.add.size"))); upc.try_add(5).is_ok() });
    p.wait_reached();
    up.close();
    p.release();
    let ok = h.join().unwrap();
    println!("D7 try_add ok={} closed={} status={:?}", ok, up.is_closed(), up.status());
}
