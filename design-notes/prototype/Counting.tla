---------------------------- MODULE Counting ----------------------------
(* Counter abstraction of the managed pool core without resize/close:
   any number of tasks, any max_size.  One counter per task location. *)
EXTENDS Integers

CONSTANT
  \* @type: Int;
  Max

VARIABLES
  \* @type: Int;
  permits,
  \* @type: Int;
  waiting,     \* queued waiters
  \* @type: Int;
  handed,      \* waiters that own a permit, not yet polled
  \* @type: Int;
  pre,         \* getters holding a permit, before the pop
  \* @type: Int;
  recycling,   \* getters with an idle object in hand
  \* @type: Int;
  creating,    \* getters inside Manager::create
  \* @type: Int;
  postc,       \* getters with a fresh object in hand (after size += 1)
  \* @type: Int;
  unsized,     \* getters with a fresh object in hand, size not yet incremented
  \* @type: Int;
  rejecting,   \* UnreadyObject::drop done size -= 1, object not yet dropped, permit still held
  \* @type: Int;
  out,         \* objects held by callers
  \* @type: Int;
  returning,   \* return_object: pushed, permit not yet added
  \* @type: Int;
  idle,
  \* @type: Int;
  size

ConstInit == Max \in Nat

Init ==
  /\ permits = Max /\ waiting = 0 /\ handed = 0 /\ pre = 0 /\ recycling = 0 /\ creating = 0
  /\ postc = 0 /\ unsized = 0 /\ rejecting = 0 /\ out = 0 /\ returning = 0 /\ idle = 0 /\ size = 0

Release(p, w, h) ==  \* add_permits(1) on (permits, waiting, handed)
  IF w > 0 THEN /\ waiting' = w - 1 /\ handed' = h + 1 /\ permits' = p
  ELSE /\ permits' = p + 1 /\ waiting' = w /\ handed' = h

Acquire == /\ permits > 0 /\ permits' = permits - 1 /\ pre' = pre + 1
           /\ UNCHANGED <<waiting, handed, recycling, creating, postc, unsized, rejecting, out, returning, idle, size>>
Enqueue == /\ permits = 0 /\ waiting' = waiting + 1
           /\ UNCHANGED <<permits, handed, pre, recycling, creating, postc, unsized, rejecting, out, returning, idle, size>>
PollHanded == /\ handed > 0 /\ handed' = handed - 1 /\ pre' = pre + 1
           /\ UNCHANGED <<permits, waiting, recycling, creating, postc, unsized, rejecting, out, returning, idle, size>>
CancelQueued == /\ waiting > 0 /\ waiting' = waiting - 1
           /\ UNCHANGED <<permits, handed, pre, recycling, creating, postc, unsized, rejecting, out, returning, idle, size>>
CancelHanded == /\ handed > 0 /\ Release(permits, waiting, handed - 1)
           /\ UNCHANGED <<pre, recycling, creating, postc, unsized, rejecting, out, returning, idle, size>>
PopIdle == /\ pre > 0 /\ idle > 0 /\ pre' = pre - 1 /\ idle' = idle - 1 /\ recycling' = recycling + 1
           /\ UNCHANGED <<permits, waiting, handed, creating, postc, unsized, rejecting, out, returning, size>>
PopNone == /\ pre > 0 /\ idle = 0 /\ pre' = pre - 1 /\ creating' = creating + 1
           /\ UNCHANGED <<permits, waiting, handed, recycling, postc, unsized, rejecting, out, returning, idle, size>>
RecycleOk == /\ recycling > 0 /\ recycling' = recycling - 1 /\ out' = out + 1
           /\ UNCHANGED <<permits, waiting, handed, pre, creating, postc, unsized, rejecting, returning, idle, size>>
RecycleFail == /\ recycling > 0 /\ recycling' = recycling - 1 /\ size' = size - 1 /\ rejecting' = rejecting + 1   \* err or cancel
           /\ UNCHANGED <<permits, waiting, handed, pre, creating, postc, unsized, out, returning, idle>>
RejectContinue == /\ rejecting > 0 /\ rejecting' = rejecting - 1 /\ pre' = pre + 1      \* detach; loop again
           /\ UNCHANGED <<permits, waiting, handed, recycling, creating, postc, unsized, out, returning, idle, size>>
RejectAbort == /\ rejecting > 0 /\ rejecting' = rejecting - 1 /\ Release(permits, waiting, handed)   \* detach; permit dropped
           /\ UNCHANGED <<pre, recycling, creating, postc, unsized, out, returning, idle, size>>
CreateOk == /\ creating > 0 /\ creating' = creating - 1 /\ unsized' = unsized + 1
           /\ UNCHANGED <<permits, waiting, handed, pre, recycling, postc, rejecting, out, returning, idle, size>>
CreateFail == /\ creating > 0 /\ creating' = creating - 1 /\ Release(permits, waiting, handed)
           /\ UNCHANGED <<pre, recycling, postc, unsized, rejecting, out, returning, idle, size>>
SizeInc == /\ unsized > 0 /\ unsized' = unsized - 1 /\ postc' = postc + 1 /\ size' = size + 1
           /\ UNCHANGED <<permits, waiting, handed, pre, recycling, creating, rejecting, out, returning, idle>>
PostCreateOk == /\ postc > 0 /\ postc' = postc - 1 /\ out' = out + 1
           /\ UNCHANGED <<permits, waiting, handed, pre, recycling, creating, unsized, rejecting, returning, idle, size>>
PostCreateFail == /\ postc > 0 /\ postc' = postc - 1 /\ size' = size - 1 /\ rejecting' = rejecting + 1
           /\ UNCHANGED <<permits, waiting, handed, pre, recycling, creating, unsized, out, returning, idle>>
ReturnPush == /\ out > 0 /\ out' = out - 1 /\ idle' = idle + 1 /\ returning' = returning + 1
           /\ UNCHANGED <<permits, waiting, handed, pre, recycling, creating, postc, unsized, rejecting, size>>
ReturnAdd == /\ returning > 0 /\ returning' = returning - 1 /\ Release(permits, waiting, handed)
           /\ UNCHANGED <<pre, recycling, creating, postc, unsized, rejecting, out, idle, size>>
Take == /\ out > 0 /\ out' = out - 1 /\ size' = size - 1 /\ Release(permits, waiting, handed)
           /\ UNCHANGED <<pre, recycling, creating, postc, unsized, rejecting, returning, idle>>

Next == \/ Acquire \/ Enqueue \/ PollHanded \/ CancelQueued \/ CancelHanded \/ PopIdle \/ PopNone
        \/ RecycleOk \/ RecycleFail \/ RejectContinue \/ RejectAbort \/ CreateOk \/ CreateFail
        \/ SizeInc \/ PostCreateOk \/ PostCreateFail \/ ReturnPush \/ ReturnAdd \/ Take

NonNeg == /\ permits >= 0 /\ waiting >= 0 /\ handed >= 0 /\ pre >= 0 /\ recycling >= 0 /\ creating >= 0
          /\ postc >= 0 /\ unsized >= 0 /\ rejecting >= 0 /\ out >= 0 /\ returning >= 0 /\ idle >= 0 /\ size >= 0
Tokens == permits + handed + pre + recycling + creating + unsized + postc + rejecting + out + returning
IndInv ==
  /\ Max >= 0 /\ NonNeg
  /\ Tokens = Max
  /\ size = idle + recycling + postc + out
  /\ idle <= permits + handed + pre + returning
  /\ (waiting > 0 => permits = 0)
\* the properties
C01 == idle + recycling + creating + unsized + postc + rejecting + out <= Max   \* objects that exist or are being created
NoUnderflow == size >= 0
IndInit ==
  /\ permits \in Int
  /\ waiting \in Int
  /\ handed \in Int
  /\ pre \in Int
  /\ recycling \in Int
  /\ creating \in Int
  /\ postc \in Int
  /\ unsized \in Int
  /\ rejecting \in Int
  /\ out \in Int
  /\ returning \in Int
  /\ idle \in Int
  /\ size \in Int
  /\ IndInv
=============================================================================
