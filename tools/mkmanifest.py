#!/usr/bin/env python3
"""Regenerate MANIFEST.json from the table below (kept in one place so that it stays valid)."""
import json, os, subprocess
ROOT = os.path.dirname(os.path.dirname(os.path.abspath(__file__)))
props = {json.loads(l)["id"]: json.loads(l) for l in open(os.path.join(ROOT, "properties.jsonl"))}

MANAGED_NOTE = ("Bounded (tasks, objects, operations per run: see evidence.configs); tokio's semaphore and std Mutex are "
                "linearisable; code between two schedule points performs at most one shared access (hooks of cfg(deadpool_verif)); "
                "sequential consistency; the property is transferred to the code only for executions that were replayed.")
TEXT = ("TLC exhausts the bounded thread-level (or task-level) model of the pool built at the grain of the code's critical "
        "sections and checks the property's invariants / action properties in every state; a transition tour of the dumped state "
        "graph (every edge on some path) is replayed on the real crate under a deterministic scheduler with the model state compared "
        "after every step; executions that do not conform, and a sample of those that do, are judged by TLC evaluating the "
        "observation-level predicates (spec/%s) on what the code did, including a drain-and-probe of the pool's capacity.")

CHECKS = {
    "C01": "managed", "C02": "managed", "C03": "managed", "C04": "managed", "C06": "managed", "C07": "managed",
    "C08": "managed", "C09": "managed", "C10": "managed", "C11": "managed", "C13": "managed", "C05": "unmanaged", "C12": "unmanaged", "C14": "sync", "C15": "syncmgr", "C16": "pgmgr", "C17": "redismgr", "C18": "cases", "C19": "cases",
}
EXTRA = {}
try:
    EXTRA = json.load(open(os.path.join(ROOT, "tools", "manifest_extra.json")))
except FileNotFoundError:
    pass

checks = []
for pid in sorted(props):
    if pid in CHECKS and CHECKS[pid] == "cases":
        table = {"C18": "PgConfig.tla", "C19": "RedisConfig.tla"}[pid]
        checks.append({
            "property_id": pid,
            "quick_cmd": "./check %s --tier quick" % pid,
            "thorough_cmd": "./check %s --tier thorough" % pid,
            "evidence_file": "/verif/evidence/%s.json" % pid,
            "replay_cmd_template": "./check replay {path}",
            "engine": "tlc+replay",
            "level_claimed": {"category": "model_checking",
                              "text": "The translation rules the property states are transcribed as a TLA+ decision table (spec/%s): TLC enumerates a structured input space (every initial state is one input with its expected outcome, slice by slice) and the harness calls the real functions on each input and compares every observable of the result; the URL parse results used as constants of the table are re-checked against the parser. Small-scope exhaustive over the enumerated grid, not a proof over all strings." % table,
                              "design_ref": "DESIGN.md section 7 (%s), section 4.6" % pid},
            "level_note": "Inputs limited to the enumerated grid (listed in evidence.configs); $USER is set per case by the harness; value-space fidelity (arbitrary strings) is covered by representative classes only.",
            "technique": "TLA+ decision-table spec (%s) enumerated by TLC; every case executed on the real code and compared" % table,
        })
    elif pid in CHECKS:
        kind = CHECKS[pid]
        dirb = ""
        tech_b = ""
        if kind in ("managed", "unmanaged"):
            tr = "ManagedTrace.tla" if kind == "managed" else "UnmanagedTrace.tla"
            dirb = (" In the other direction, seeded random schedules (more tasks and far more operations than TLC exhausts) are driven on "
                    "the real pool by the same scheduler; the recorded trace is validated by TLC against spec/%s (every event must be the "
                    "named action of the specification AND end in exactly the logged state; all invariants of the specification are "
                    "evaluated on the observed behaviour), and the observation log goes through the same monitor." % tr)
            tech_b = "; trace validation of seeded random executions of the real pool against %s" % tr
        if pid in ("C01", "C02"):
            dirb += (" Thorough tier: Apalache discharges the inductive invariant of the counter abstraction ManagedCounting.tla (any number of "
                     "tasks, any max_size) and TLC checks that ManagedPool.tla refines it" + ("; liveness of waiting get() under fairness." if pid == "C02" else "."))
        if pid == "C05":
            dirb += (" Thorough tier: Apalache discharges the inductive invariant of UnmanagedCounting.tla and TLC checks the refinement; "
                     "liveness of waiting get() / add() under fairness (quick and thorough).")
        if pid == "C17":
            dirb += (" A sample of the recorded paths ends with a concurrent phase (8 worker threads recycling at once on a pool and "
                     "scripted server of their own), judged by the same monitor: the manager crate has no schedule points, so races "
                     "inside it are explored by running them, not scheduled.")
        if pid == "C09":
            dirb += " One configuration drives the deadpool-postgres manager (PgManager.tla), whose statement-cache registry relies on detach."
        checks.append({
            "property_id": pid,
            "quick_cmd": "./check %s --tier quick" % pid,
            "thorough_cmd": "./check %s --tier thorough" % pid,
            "evidence_file": "/verif/evidence/%s.json" % pid,
            "replay_cmd_template": "./check replay {path}",
            "engine": "tlc+replay",
            "level_claimed": {"category": "model_checking",
                              "text": TEXT % {"managed": "ManagedObs.tla", "unmanaged": "UnmanagedObs.tla", "sync": "SyncObs.tla", "syncmgr": "SyncMgrObs.tla", "redismgr": "RedisObs.tla", "pgmgr": "PgObs.tla"}[kind] + dirb,
                              "design_ref": "DESIGN.md section 7 (%s), sections 4-5" % pid},
            "level_note": MANAGED_NOTE,
            "technique": "explicit TLA+ spec (%s) model-checked with TLC; transition-tour replay on the real code with state comparison; TLC observation monitor"
                         % {"managed": "ManagedPool.tla", "unmanaged": "UnmanagedPool.tla", "sync": "SyncWrapper.tla", "syncmgr": "SyncManagers.tla", "redismgr": "RedisManager.tla", "pgmgr": "PgManager.tla"}[kind] + tech_b,
        })
    elif pid in EXTRA.get("checks", {}):
        checks.append(EXTRA["checks"][pid])
na = [{"property_id": p, "reason": EXTRA.get("not_applicable", {}).get(p, "check not built yet (work in progress; see DESIGN.md section 14)")}
      for p in sorted(props) if p not in [c["property_id"] for c in checks]]
hook_commits = subprocess.run(["git", "-C", "/repo", "log", "--format=%h", "--grep", "^verif hooks"], capture_output=True, text=True).stdout.split()
m = {
    "version": 1,
    "setup_cmd": "./setup.sh",
    "hooks": {"guard": "deadpool_verif",
              "enable": "RUSTFLAGS=\"--cfg deadpool_verif\" (set in /verif/harness/.cargo/config.toml; harness crates depend on /repo by path)",
              "baseline_off_cmd": "cd /repo && cargo nextest run --workspace --no-fail-fast --tool-config-file pb:/w/lib/nextest.toml --profile pb --test-threads 8 --offline",
              "source_commits": hook_commits, "add_only": True},
    "engines": [
        {"name": "tlc+replay", "path": "/verif/check", "serves_properties": sorted(CHECKS),
         "kind_free_text": "TLA+ specs in /verif/spec checked by TLC; tools/tlcgraph.py turns TLC's state graph into a transition tour; harness/mh replays it on the real crate (one OS thread per model task, parked at cfg(deadpool_verif) schedule points); spec/*Obs.tla evaluated by TLC on the observation log"},
    ],
    "checks": checks,
    "notes": "Exit codes: 0 held on everything explored; 1 with a VIOLATION line; 2 tool error. MODEL-DRIFT lines (exit 0) mean executions no longer conform to the specification although no property predicate was violated. A behaviour of the specification on which the code under test aborts the whole process is reported as VIOLATION with predicate process_abort. known_findings.json lists the 9 defects of the given tree, all repaired by fix: commits (nothing is suppressed). seeded/ holds 95 independently written changes that break a property and what detects each (DESIGN.md section 13e).",
    "not_applicable": na,
}
json.dump(m, open(os.path.join(ROOT, "MANIFEST.json"), "w"), indent=1)
print(len(checks), "checks;", len(na), "not applicable")
