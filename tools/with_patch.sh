#!/bin/sh
# usage: with_patch.sh <patch.diff> <command...>   -- apply to /repo, run, always undo
P="$1"; shift
git -C /repo apply "$P" || exit 3
"$@"; rc=$?
git -C /repo checkout -- . 
git -C /verif checkout -q -- evidence
exit $rc
