#!/usr/bin/env python3
"""Run the observation monitor (spec/ManagedObs.tla) on an observation log.

  obsmon.py --obs FILE --paths PATHSFILE(for cfg) [--out result.json]

Prints one line per violated predicate instance: VIOL run i [names]; exit 0 always
(the caller decides).  Result JSON: {"events": n, "viol": {name: [[run, i], ...]}}.
"""
import argparse, json, os, re, subprocess, sys, tempfile, time

ROOT = os.path.dirname(os.path.dirname(os.path.abspath(__file__)))


def monitor(obs_path, hcfg, workdir, spec="ManagedObs.tla", timeout=1800):
    os.makedirs(workdir, exist_ok=True)
    cfg = os.path.join(workdir, "obs.cfg")
    rt = "TRUE" if hcfg.get("has_runtime", True) else "FALSE"
    with open(cfg, "w") as f:
        if spec == "ManagedObs.tla":
            f.write("SPECIFICATION Spec\nCONSTANTS\n  NPre = %d\n  NPost = %d\n  NPc = %d\n  HasRuntime = %s\n"
                    "POSTCONDITION Consumed\nCHECK_DEADLOCK FALSE\n"
                    % (hcfg.get("npre", 0), hcfg.get("npost", 0), hcfg.get("npc", 0), rt))
        elif spec == "UnmanagedObs.tla":
            f.write("SPECIFICATION Spec\nCONSTANTS\n  HasRuntime = %s\nPOSTCONDITION Consumed\nCHECK_DEADLOCK FALSE\n" % rt)
        else:
            f.write("SPECIFICATION Spec\nPOSTCONDITION Consumed\nCHECK_DEADLOCK FALSE\n")
    env = dict(os.environ)
    env["OBS"] = os.path.abspath(obs_path)
    jtmp = os.path.join(workdir, "jtmp")
    os.makedirs(jtmp, exist_ok=True)
    env["JAVA_TOOL_OPTIONS"] = "-Xss1g -Djava.io.tmpdir=" + jtmp
    n = sum(1 for _ in open(obs_path))
    if n == 0:
        return {"events": 0, "viol": {}, "tlc_s": 0.0, "consumed": True}
    t0 = time.time()
    p = subprocess.run(["timeout", str(timeout), "tlc", "-workers", "1", "-metadir", os.path.join(workdir, "meta"),
                        "-cleanup", "-noGenerateSpecTE", "-config", cfg, spec],
                       cwd=os.path.join(ROOT, "spec"), env=env, capture_output=True, text=True)
    out = p.stdout + p.stderr
    viol = {}
    for m in re.finditer(r'<<"VIOL", (\d+), (\d+), \{([^}]*)\}>>', out):
        for name in re.findall(r'"(\w+)"', m.group(3)):
            viol.setdefault(name, []).append([int(m.group(1)), int(m.group(2))])
    ok = "Model checking completed. No error has been found." in out
    if not ok:
        sys.stderr.write(out[-3000:])
        raise SystemExit("TOOL-ERROR observation monitor failed")
    return {"events": n, "viol": viol, "tlc_s": time.time() - t0, "consumed": ok}


if __name__ == "__main__":
    ap = argparse.ArgumentParser()
    ap.add_argument("--obs", required=True)
    ap.add_argument("--paths", required=True)
    ap.add_argument("--out")
    a = ap.parse_args()
    hcfg = json.loads(open(a.paths).readline())["cfg"]
    r = monitor(a.obs, hcfg, os.path.join(ROOT, "work", "obsmon"))
    for k, v in sorted(r["viol"].items()):
        print("VIOL", k, len(v), v[:5])
    print(json.dumps({"events": r["events"], "tlc_s": r["tlc_s"], "violated": sorted(r["viol"])}))
    if a.out:
        json.dump(r, open(a.out, "w"))
