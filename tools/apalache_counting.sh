#!/bin/sh
# Discharge the inductive invariant of spec/ManagedCounting.tla with Apalache (unbounded in the
# number of tasks and in max_size).  Prints one line per obligation; exit 0 iff all hold.
cd "$(dirname "$0")/../work" 2>/dev/null || { mkdir -p "$(dirname "$0")/../work"; cd "$(dirname "$0")/../work"; }
mkdir -p apalache && cd apalache
SPEC=../../spec/ManagedCounting.tla
rc=0
for ob in "init=>IndInv|--init=Init --inv=IndInv --length=0" \
          "IndInv/\\Next=>IndInv'|--init=IndInit --inv=IndInv --length=1" \
          "IndInv=>C01|--init=IndInit --inv=C01 --length=0" \
          "IndInv=>NeverStale|--init=IndInit --inv=NeverStale --length=0" \
          "IndInv=>NoUnderflow|--init=IndInit --inv=NoUnderflow --length=0" \
          "IndInv=>AtRestFull|--init=IndInit --inv=AtRestFull --length=0"; do
  name="${ob%%|*}"; args="${ob#*|}"
  out=$(timeout 900 apalache-mc check --cinit=ConstInit $args $SPEC 2>&1)
  if echo "$out" | grep -q "The outcome is: NoError"; then echo "OBLIGATION $name: discharged"; else echo "OBLIGATION $name: FAILED"; rc=1; fi
done
rm -rf _apalache-out
exit $rc
