#!/bin/sh
# Discharge the inductive invariant of spec/UnmanagedCounting.tla with Apalache (unbounded in the number
# of tasks, in max_size and in the number of preloaded objects).  One line per obligation; exit 0 iff all hold.
cd "$(dirname "$0")/../work" 2>/dev/null || { mkdir -p "$(dirname "$0")/../work"; cd "$(dirname "$0")/../work"; }
mkdir -p apalache_u && cd apalache_u
SPEC=../../spec/UnmanagedCounting.tla
rc=0
for ob in "init=>IndInv|--init=Init --inv=IndInv --length=0" \
          "IndInv/\\Next=>IndInv'|--init=IndInit --inv=IndInv --length=1" \
          "IndInv=>C05max|--init=IndInit --inv=C05max --length=0" \
          "IndInv=>NoEmptyPop|--init=IndInit --inv=NoEmptyPop --length=0" \
          "IndInv=>Full|--init=IndInit --inv=Full --length=0" \
          "IndInv=>StatusAtRest|--init=IndInit --inv=StatusAtRest --length=0" \
          "IndInv=>NoUnderflow|--init=IndInit --inv=NoUnderflow --length=0"; do
  name="${ob%%|*}"; args="${ob#*|}"
  out=$(timeout 900 apalache-mc check --cinit=ConstInit $args $SPEC 2>&1)
  if echo "$out" | grep -q "The outcome is: NoError"; then echo "OBLIGATION $name: discharged"; else echo "OBLIGATION $name: FAILED"; rc=1; fi
done
rm -rf _apalache-out
exit $rc
