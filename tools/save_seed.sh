#!/bin/sh
# usage: save_seed.sh <Cxx> <name>   -- copy /tmp/wt/<Cxx>/SEEDED to /verif/seeded/<name>, drop worktree
set -e
mkdir -p /verif/seeded/$2
cp -r /tmp/wt/$1/SEEDED/* /verif/seeded/$2/
git -C /repo worktree remove --force /tmp/wt/$1
ls /verif/seeded/$2
