#!/usr/bin/env python3
"""Validate a trace recorded from the real managed pool against spec/ManagedTrace.tla."""
import json, os, re, subprocess, sys, time
HERE = os.path.dirname(os.path.abspath(__file__))
ROOT = os.path.dirname(HERE)
sys.path.insert(0, HERE)
import configs

INVS = ["TypeOK", "UsersExact", "SizeExact", "CreatingExact", "PermitsCover", "NoWaiterWithFreePermit",
        "Inv_C02a", "Inv_C02b", "Inv_C02c", "Inv_C09b", "Inv_C03", "Inv_C04a", "Inv_C06a", "Inv_C06b", "Inv_C07c",
        "Inv_C11a", "Inv_C11b", "Inv_C13"]


UINVS = ["TypeOK", "Inv_C05_places", "Inv_C05_nodrop", "Inv_C05_max", "Inv_C05_full", "Inv_C05_getters", "Inv_C05_status",
         "Inv_C12_nounderflow", "Inv_C12_final", "Inv_C12_late"]


def validate(trace_path, rc, workdir, no_resize=None, timeout=3600, kind="managed"):
    """rc: the random driver's configuration.  Returns dict(accepted, events, rejected, violated, tlc_s, states).
    The action properties are the trace-level ones (TAct_*: the step that starts the next run is exempt)."""
    os.makedirs(workdir, exist_ok=True)
    c = rc["cfg"]
    if kind == "unmanaged":
        consts = dict(Tasks=c["tasks"], MaxSize=c["max_size"], Preload=c.get("preload", 0), NObjs=c["nobjs"], Budget=1000000,
                      GetModes=rc.get("modes", ["try", "bl"]), HasRuntime=bool(c.get("has_runtime", True)),
                      AllowClose=True, AllowTake=True, AllowRemove=True, AllowAdd=True, AllowCancel=True, AllowDropPool=True)
        txt = configs.cfg_text(consts, UINVS, ["TAct_C05_tryadd", "TAct_C12_closed"], spec="TraceSpec", base=configs.UBASE)
        module = "UnmanagedTrace.tla"
    else:
        consts = dict(
            Tasks=c["tasks"], InitMax=c["init_max"], MaxObjs=rc.get("max_objs", 30) + 2, Budget=1000000, Lifo=bool(c.get("lifo", False)),
            NPre=c.get("npre", 0), NPost=c.get("npost", 0), NPc=c.get("npc", 0),
            AsyncPre=c.get("async_pre", []), AsyncPost=c.get("async_post", []), AsyncPc=c.get("async_pc", []),
            GetModes=rc.get("modes", ["nb", "bl"]), CreateTO=rc.get("ctos", ["none"]), RecycleTO=rc.get("rtos", ["none"]),
            HasRuntime=bool(c.get("has_runtime", True)), ResizeTargets=rc.get("resize_targets", []),
            AllowClose=True, AllowRetain=True, AllowTake=True, AllowDropPool=True, AllowFail=True, AllowSuspend=True,
            AllowCancel=True, AllowPanic=True, ThreadLevel=True, HoldAndWait=True, UnwindDrops=bool(c.get("unwind_drops", False)))
        invs = list(INVS)
        if not rc.get("resize_targets") and not rc.get("allow_close"):
            invs += ["Inv_C01", "Inv_C11noshrink"]
        txt = configs.cfg_text(consts, invs, ["TAct_C06c", "TAct_C07a", "TAct_C07b", "TAct_C08b"], spec="TraceSpec")
        module = "ManagedTrace.tla"
    txt += "POSTCONDITION TraceAccepted\n"
    cfg = os.path.join(workdir, "trace.cfg")
    open(cfg, "w").write(txt)
    env = dict(os.environ)
    env["TRACE"] = os.path.abspath(trace_path)
    jtmp = os.path.join(workdir, "jtmp")
    os.makedirs(jtmp, exist_ok=True)
    env["JAVA_TOOL_OPTIONS"] = "-Xss1g -Dtlc2.tool.queue.IStateQueue=StateDeque -Djava.io.tmpdir=" + jtmp
    n = sum(1 for _ in open(trace_path))
    t0 = time.time()
    p = subprocess.run(["timeout", str(timeout), "tlc", "-workers", "1", "-metadir", os.path.join(workdir, "meta"), "-cleanup",
                        "-noGenerateSpecTE", "-config", cfg, module], cwd=os.path.join(ROOT, "spec"), env=env,
                       capture_output=True, text=True)
    out = p.stdout + p.stderr
    res = {"events": n, "tlc_s": round(time.time() - t0, 2), "accepted": False, "rejected": [], "violated": []}
    for m in re.finditer(r'<<"REJECTED", (\d+), (\d+), "(\w+)", "(\w+)">>', out):
        res["rejected"].append({"run": int(m.group(1)), "seq": int(m.group(2)), "task": m.group(3), "act": m.group(4)})
    res["violated"] = re.findall(r'Invariant (\w+) is violated', out) + re.findall(r'Action property (\w+) is violated', out)
    dm = re.search(r'(\d+) states generated, (\d+) distinct', out)
    res["states"] = int(dm.group(2)) if dm else 0
    if "No error has been found" in out:
        res["accepted"] = not res["rejected"]
        # every event was consumed: one state per event plus the initial one (the postcondition says the same)
        if res["states"] < n:
            sys.stderr.write(out[-2000:])
            raise SystemExit("TOOL-ERROR trace validation consumed %d of %d events" % (res["states"], n))
    elif res["violated"]:
        # TLC stops at the first violated invariant: the run it happened in is the one being validated then
        lm = re.findall(r'/\\ l = (\d+)', out)
        res["violated_at_event"] = int(lm[-1]) if lm else 0
    else:
        sys.stderr.write(out[-3000:])
        raise SystemExit("TOOL-ERROR trace validation failed to run")
    return res


if __name__ == "__main__":
    rc = json.load(open(sys.argv[2]))
    print(json.dumps(validate(sys.argv[1], rc, os.path.join(ROOT, "work", "tracecheck"), kind=sys.argv[3] if len(sys.argv) > 3 else "managed"), indent=1)[:3000])
