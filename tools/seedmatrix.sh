#!/bin/bash
# Run, for every seeded change, the quick check of the property it breaks on /repo with the change
# applied (undone straight afterwards).  Result: seeded/<id>/detect.json.   usage: seedmatrix.sh [seed ...]
cd /verif
seeds="$@"; [ -z "$seeds" ] && seeds=$(ls seeded)
for s in $seeds; do
  d=/verif/seeded/$s
  [ -f $d/patch.diff ] || continue
  prop=$(python3 -c "import json;print(json.load(open('$d/meta.json'))['property'])")
  git -C /repo checkout -q -- . ; git -C /repo apply $d/patch.diff || { echo "$s: patch does not apply"; continue; }
  t0=$(date +%s)
  timeout 1500 ./check $prop --tier quick > /tmp/seedm_$s.log 2>&1; rc=$?
  git -C /repo checkout -q -- .
  # the evidence files describe the unchanged tree: a run against a seeded change must not leave its own behind
  git -C /verif checkout -q -- evidence
  preds=$(grep -oE "predicate [A-Za-z0-9]+ is false|table [a-z_]+: the code disagrees" /tmp/seedm_$s.log | sort | uniq -c | tr '\n' ';')
  drift=$(grep -c MODEL-DRIFT /tmp/seedm_$s.log)
  echo "{\"seed\":\"$s\",\"property\":\"$prop\",\"check_rc\":$rc,\"detected\":$([ $rc -eq 1 ] && echo true || echo false),\"what\":\"$preds\",\"drift_lines\":$drift,\"wall_s\":$(( $(date +%s) - t0 ))}" > $d/detect.json
  cat $d/detect.json
done
git -C /repo checkout -q -- .
