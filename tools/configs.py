"""Model-checking / tour configurations per property (DESIGN.md section 8)."""

BASE = dict(
    Tasks=["t1", "t2"], InitMax=1, MaxObjs=3, Budget=4, Lifo=False,
    NPre=0, NPost=0, NPc=0, AsyncPre=[], AsyncPost=[], AsyncPc=[],
    GetModes=["nb", "bl"], CreateTO=["none"], RecycleTO=["none"], HasRuntime=True,
    ResizeTargets=[], AllowClose=False, AllowRetain=False, AllowTake=False, AllowDropPool=False,
    AllowFail=True, AllowSuspend=True, AllowCancel=True, AllowPanic=False, ThreadLevel=True, HoldAndWait=True,
    UnwindDrops=False,
)

STRUCT = ["TypeOK", "UsersExact", "SizeExact", "CreatingExact", "PermitsCover", "NoWaiterWithFreePermit"]


def tla(v):
    if isinstance(v, bool):
        return "TRUE" if v else "FALSE"
    if isinstance(v, int):
        return str(v)
    if isinstance(v, str):
        return '"%s"' % v
    if isinstance(v, (list, tuple, set)):
        return "{" + ", ".join(tla(x) for x in v) + "}"
    raise TypeError(v)


UBASE = dict(
    Tasks=["t1", "t2"], MaxSize=2, Preload=0, NObjs=3, Budget=4, GetModes=["try", "bl"], HasRuntime=True,
    AllowClose=False, AllowTake=True, AllowRemove=True, AllowAdd=True, AllowCancel=True, AllowDropPool=False,
)
USTRUCT = ["TypeOK"]
MBASE = dict(MaxSize=1, NConns=3, Budget=5, AllowBreak=False, AllowInvalid=False)
RBASE = dict(MaxSize=1, NConns=3, Budget=4, Modes=["right", "wrong"])
PBASE = dict(MaxSize=1, NConns=3, Budget=4, Method="fast", Modes=["ok"], Keys=["a"], AllowDrop=False)
SBASE = dict(K=1, NInteract=2, MaxPending=1, AllowPanic=True, AllowCancel=True)


def cfg_text(consts, invariants=(), properties=(), spec="Spec", constraint=None, base=None):
    base = BASE if base is None else base
    c = dict(base)
    c.update(consts)
    lines = ["SPECIFICATION %s" % spec, "CONSTANTS"]
    for k in base:
        lines.append("  %s = %s" % (k, tla(c[k])))
    lines.append("CHECK_DEADLOCK FALSE")
    if invariants:
        lines.append("INVARIANTS " + " ".join(invariants))
    if properties:
        lines.append("PROPERTIES " + " ".join(properties))
    if constraint:
        lines.append("CONSTRAINT " + constraint)
    return "\n".join(lines) + "\n"


def C(**kw):
    return kw


# (name, constants, replay on the real code?)
PROPS = {
    "C01": {
        "invariants": ["Inv_C01", "Inv_C11noshrink"], "actprops": [], "preds": ["C01"],
        "configs": {
            "quick": [
                ("m0", C(InitMax=0, Budget=3, MaxObjs=1, AllowTake=True, AllowRetain=True), True),
                # (mixing wait modes multiplies the state space: one mode per replayed configuration in the quick tier,
                #  the mixed ones are in the thorough tier)
                ("m1bl", C(InitMax=1, Budget=4, AllowTake=True, AllowRetain=True, GetModes=["bl"]), True),
                ("m1nb", C(InitMax=1, Budget=4, AllowTake=True, AllowRetain=True, AllowPanic=True, GetModes=["nb"]), True),
                ("m2nb", C(InitMax=2, Budget=3, NPost=1, AsyncPost=[1], NPc=1, Lifo=True, AllowTake=True, AllowRetain=True, AllowPanic=True, GetModes=["nb"]), True),
                # a caller whose get() panics drops what it holds while the panic unwinds
                ("unw1", C(Tasks=["t1"], InitMax=2, MaxObjs=4, Budget=5, ThreadLevel=False, AllowPanic=True, UnwindDrops=True, GetModes=["nb"],
                           AllowSuspend=False, AllowCancel=False), True),
                ("unw2", C(InitMax=1, Budget=3, AllowPanic=True, UnwindDrops=True, GetModes=["nb"], AllowCancel=False), True),
                # recycle / create timeouts: whatever is given up must be given up exactly once
                ("rto1", C(Tasks=["t1"], InitMax=2, MaxObjs=4, Budget=6, ThreadLevel=False, RecycleTO=["finite"], CreateTO=["finite"], GetModes=["nb"],
                           AllowFail=False, AllowCancel=False), True),
                ("m1mix", C(InitMax=1, Budget=4, AllowTake=True, AllowRetain=True, AllowPanic=True), False),
            ],
            "thorough": [
                ("m1q", C(InitMax=1, Budget=4, AllowTake=True, AllowRetain=True, AllowPanic=True), True),
                ("m1", C(InitMax=1, Budget=5, AllowTake=True, AllowRetain=True, AllowPanic=True, NPre=1, AsyncPre=[1]), True),
                ("m2", C(InitMax=2, Budget=4, NPost=1, AsyncPost=[1], NPc=1, Lifo=True, AllowTake=True, AllowRetain=True, AllowPanic=True), True),
                ("t3m2", C(Tasks=["t1", "t2", "t3"], InitMax=2, Budget=5, MaxObjs=4, AllowTake=True, AllowPanic=True), False),
                ("t3m3", C(Tasks=["t1", "t2", "t3"], InitMax=3, Budget=5, MaxObjs=4, AllowTake=True, AllowSuspend=False), False),
            ],
        },
    },
    "C02": {
        "invariants": ["Inv_C02a", "Inv_C02b", "Inv_C02c"], "actprops": [], "preds": ["C02a", "C02b", "C02c"],
        "configs": {
            "quick": [
                ("m1bl", C(InitMax=1, Budget=4, GetModes=["bl"], AllowTake=True, AllowPanic=True), True),
                ("m1mix", C(InitMax=1, Budget=3, GetModes=["nb", "bl"], AllowTake=True, AllowPanic=True), True),
                ("timed", C(InitMax=1, Budget=3, GetModes=["timed", "nb"], AllowFail=False), True),
                ("m2bl", C(InitMax=2, Budget=3, NPre=1, NPc=1, AsyncPc=[1], AllowTake=True, GetModes=["bl"]), True),
                # capacity after a shrink that overlaps a creation: nobody may be stranded afterwards
                ("rsz", C(InitMax=2, Budget=4, ResizeTargets=[1], GetModes=["bl"], AllowCancel=False, AllowFail=False, AllowSuspend=False), True),
                ("m2", C(InitMax=2, Budget=3, NPre=1, NPc=1, AsyncPc=[1], AllowTake=True, AllowRetain=True), False),
            ],
            "thorough": [
                ("m1q", C(InitMax=1, Budget=4, GetModes=["nb", "bl"], AllowTake=True, AllowPanic=True), True),
                ("m2q", C(InitMax=2, Budget=3, NPre=1, NPc=1, AsyncPc=[1], AllowTake=True, AllowRetain=True), True),
                ("m1", C(InitMax=1, Budget=5, GetModes=["nb", "bl", "timed"], AllowTake=True, AllowPanic=True, NPost=1, AsyncPost=[1]), True),
                ("m2", C(InitMax=2, Budget=4, NPre=1, NPc=1, AsyncPc=[1], AllowTake=True, AllowPanic=True, AllowRetain=True), True),
                ("t3m2", C(Tasks=["t1", "t2", "t3"], InitMax=2, Budget=5, MaxObjs=4, AllowTake=True, AllowPanic=True), False),
            ],
        },
    },
    "C03": {
        "invariants": ["Inv_C03", "Inv_C09b", "Inv_C02b", "Inv_C02c"], "actprops": [], "preds": ["C03a", "C03b"],
        "configs": {
            "quick": [
                ("hooks", C(InitMax=1, Budget=3, NPre=1, AsyncPre=[1], NPost=1, AsyncPost=[1], NPc=1, AsyncPc=[1], AllowPanic=True, AllowFail=False), True),
                ("m2", C(InitMax=2, Budget=3, NPost=1, AllowPanic=True, GetModes=["bl"]), True),
                # a get() abandoned inside recycle while another thread sits in retain()'s predicate, holding the slots mutex
                ("rtc", C(InitMax=2, Budget=4, AllowRetain=True, GetModes=["nb"], AllowFail=False), True),
            ],
            "thorough": [
                ("hooks", C(InitMax=1, Budget=4, NPre=1, AsyncPre=[1], NPost=1, AsyncPost=[1], NPc=1, AsyncPc=[1], AllowPanic=True), True),
                ("m2", C(InitMax=2, Budget=4, NPost=1, AllowPanic=True, GetModes=["bl", "timed"], AllowTake=True), True),
            ],
        },
    },
    "C04": {
        "invariants": ["Inv_C04a", "Inv_C09b"], "actprops": [], "preds": ["C04a", "C04b", "C04c", "C04d"],
        "configs": {
            "quick": [
                ("sync", C(Tasks=["t1"], InitMax=2, Budget=5, NPre=1, NPost=1, NPc=1, ThreadLevel=False, CreateTO=["finite"], RecycleTO=["finite"]), True),
                ("async2", C(InitMax=1, Budget=3, NPre=2, AsyncPre=[2], NPost=2, AsyncPost=[1], NPc=2, AsyncPc=[2], ThreadLevel=False, Lifo=True), True),
                # NoRuntimeSpecified surfaces as such (and costs no idle object) whatever the wait mode
                ("nort", C(Tasks=["t1"], InitMax=2, Budget=5, HasRuntime=False, GetModes=["nb", "bl"], RecycleTO=["none", "finite"], AllowSuspend=False,
                           AllowCancel=False, ThreadLevel=False), True),
            ],
            "thorough": [
                ("sync", C(InitMax=2, Budget=5, NPre=1, NPost=1, NPc=1, ThreadLevel=False, CreateTO=["finite"], RecycleTO=["finite"]), True),
                ("async2", C(InitMax=2, Budget=4, NPre=2, AsyncPre=[2], NPost=2, AsyncPost=[1], NPc=2, AsyncPc=[2], ThreadLevel=False, Lifo=True), True),
                ("thread", C(InitMax=1, Budget=3, NPre=1, NPost=1, NPc=1, AsyncPost=[1]), True),
            ],
        },
    },
    "C06": {
        "invariants": ["Inv_C06a", "Inv_C06b", "Inv_C02a", "Inv_C09b"], "actprops": ["Act_C06c"], "preds": ["C06a", "C06b", "C06c", "C02a"],
        "configs": {
            "quick": [
                ("closebl", C(InitMax=1, Budget=4, AllowClose=True, ResizeTargets=[2], AllowDropPool=True, AllowSuspend=False, GetModes=["bl"]), True),
                ("close2", C(InitMax=2, Budget=3, AllowClose=True, AllowTake=True, AllowRetain=True, AllowCancel=False), True),
                ("close", C(InitMax=1, Budget=4, AllowClose=True, ResizeTargets=[2], AllowDropPool=True, AllowSuspend=False), False),
                # close() while another task's recycle is in flight, which then runs into the recycle timeout (seed C06f)
                ("closerto", C(InitMax=1, Budget=4, AllowClose=True, RecycleTO=["finite"], GetModes=["nb"], AllowFail=False, AllowCancel=False), True),
            ],
            "thorough": [
                ("closeq", C(InitMax=1, Budget=4, AllowClose=True, ResizeTargets=[2], AllowDropPool=True, AllowSuspend=False), True),
                ("close", C(InitMax=1, Budget=5, AllowClose=True, ResizeTargets=[2], AllowDropPool=True), True),
                ("close2", C(InitMax=2, Budget=4, AllowClose=True, AllowTake=True, AllowRetain=True, ResizeTargets=[1]), True),
                ("closerto", C(InitMax=1, Budget=4, AllowClose=True, RecycleTO=["finite"], GetModes=["nb"], AllowFail=False, AllowCancel=False), True),
            ],
        },
    },
    "C07": {
        "invariants": ["Inv_C07c", "Inv_C02b", "Inv_C02c"], "actprops": ["Act_C07a", "Act_C07b"], "preds": ["C07a", "C07b", "C07c", "C07d"],
        "configs": {
            "quick": [
                ("r1bl", C(InitMax=1, Budget=4, ResizeTargets=[0, 2], AllowSuspend=False, AllowCancel=False, GetModes=["bl"]), True),
                ("r2", C(InitMax=2, Budget=4, ResizeTargets=[1, 3], AllowFail=False, AllowCancel=False, GetModes=["bl"]), True),
                ("r2f", C(InitMax=2, Budget=3, ResizeTargets=[1, 3], AllowCancel=False, GetModes=["bl"]), True),
                ("r1", C(InitMax=1, Budget=4, ResizeTargets=[0, 2], AllowSuspend=False, AllowCancel=False), False),
            ],
            "thorough": [
                ("r1q", C(InitMax=1, Budget=4, ResizeTargets=[0, 2], AllowSuspend=False, AllowCancel=False), True),
                ("r1", C(InitMax=1, Budget=5, ResizeTargets=[0, 2], AllowTake=True), True),
                ("r2", C(InitMax=2, Budget=4, ResizeTargets=[0, 1, 3], AllowRetain=True), True),
                ("t3", C(Tasks=["t1", "t2", "t3"], InitMax=2, Budget=4, MaxObjs=4, ResizeTargets=[0, 1, 3], AllowClose=True), False),
            ],
        },
    },
    "C08": {
        "invariants": ["Inv_C13"], "actprops": ["Act_C08b"], "preds": ["C08a", "C08b", "C08c"],
        "configs": {
            "quick": [
                ("fifo", C(Tasks=["t1"], InitMax=3, MaxObjs=4, Budget=6, ThreadLevel=False, AllowRetain=True, AllowSuspend=False, AllowCancel=False, GetModes=["nb"]), True),
                ("lifo", C(Tasks=["t1"], InitMax=3, MaxObjs=4, Budget=7, ThreadLevel=False, AllowRetain=True, AllowSuspend=False, AllowCancel=False, GetModes=["nb"], Lifo=True), True,
                 {"hcfg": {"build_order": 1}}),
                # the same pool reached through other orders of the builder calls
                ("lifo_cfg", C(Tasks=["t1"], InitMax=2, MaxObjs=3, Budget=5, ThreadLevel=False, AllowSuspend=False, AllowCancel=False, AllowFail=False, GetModes=["nb"], Lifo=True), True,
                 {"hcfg": {"build_order": 2}}),
                ("lifo_cfg2", C(Tasks=["t1"], InitMax=2, MaxObjs=3, Budget=5, ThreadLevel=False, AllowSuspend=False, AllowCancel=False, AllowFail=False, GetModes=["nb"], Lifo=True), True,
                 {"hcfg": {"build_order": 3}}),
                # a get() cancelled inside a pre_recycle hook: the candidate is gone, the order of the others is unchanged
                ("cancelpre", C(Tasks=["t1"], InitMax=3, MaxObjs=4, Budget=6, ThreadLevel=False, NPre=1, AsyncPre=[1], AllowFail=False, GetModes=["nb"]), True),
                ("shrink", C(Tasks=["t1"], InitMax=4, MaxObjs=4, Budget=7, ThreadLevel=False, ResizeTargets=[2, 3], AllowFail=False, AllowSuspend=False, AllowCancel=False, GetModes=["nb"]), True),
                ("two", C(InitMax=3, MaxObjs=3, Budget=5, ThreadLevel=False, AllowRetain=True, AllowSuspend=False, AllowCancel=False, AllowFail=False, GetModes=["nb"]), True),
            ],
            "thorough": [
                ("fifo", C(InitMax=3, MaxObjs=4, Budget=7, ThreadLevel=False, AllowRetain=True, AllowSuspend=False, AllowCancel=False, GetModes=["nb"], ResizeTargets=[2]), True),
                ("lifo", C(InitMax=3, MaxObjs=4, Budget=7, ThreadLevel=False, AllowRetain=True, AllowSuspend=False, AllowCancel=False, GetModes=["nb"], Lifo=True, AllowTake=True), True),
                ("thread", C(InitMax=2, Budget=4, AllowRetain=True, Lifo=True), True),
            ],
        },
    },
    "C09": {
        "invariants": ["Inv_C09b", "Inv_C02c"], "actprops": [], "preds": ["C09a", "C09b", "C09c"], "xh_too": True,
        "configs": {
            "quick": [
                ("rt", C(InitMax=2, Budget=4, AllowRetain=True, AllowTake=True, AllowSuspend=False, AllowCancel=False, GetModes=["nb"]), True),
                ("rsz", C(InitMax=2, Budget=4, AllowRetain=True, ResizeTargets=[1], AllowClose=True, AllowSuspend=False, AllowCancel=False, AllowFail=False, GetModes=["bl"]), True),
                # a manager that relies on detach (anchor: postgres/src/lib.rs): its registry follows the pool's clients
                ("pgreg", C(MaxSize=3, NConns=3, Budget=5, Method="fast", Keys=["a"]), True,
                 {"kind": "pgmgr", "invariants": ["Inv_C16_registry", "Inv_Capacity"], "actprops": [], "preds": ["P16c", "P16d", "P16f"],
                  "hcfg": {"stress": 24, "stress_rounds": 6}}),
                # close() while another task's recycle / post_create is in flight, which then fails: still exactly one detach (seed C09f)
                ("clfail", C(InitMax=1, Budget=4, AllowClose=True, AllowSuspend=False, AllowCancel=False, GetModes=["nb"]), True),
                ("tkrsz", C(Tasks=["t1"], InitMax=2, Budget=6, AllowTake=True, ResizeTargets=[0, 1], AllowClose=True, AllowSuspend=False, AllowCancel=False, AllowFail=False, GetModes=["nb"], ThreadLevel=False), True),
            ],
            "thorough": [
                ("rt", C(InitMax=2, Budget=5, AllowRetain=True, AllowTake=True, AllowCancel=False), True),
                ("rsz", C(InitMax=2, Budget=5, AllowRetain=True, AllowTake=True, ResizeTargets=[1], AllowClose=True, AllowSuspend=False, AllowCancel=False), True),
                ("m3", C(InitMax=3, MaxObjs=4, Budget=6, ThreadLevel=False, AllowRetain=True, AllowTake=True, AllowSuspend=False, AllowCancel=False, GetModes=["nb"]), True),
                ("clfail", C(InitMax=1, Budget=4, AllowClose=True, AllowSuspend=False, AllowCancel=False, GetModes=["nb"]), True),
                ("pgreg", C(MaxSize=3, NConns=4, Budget=5, Method="fast", Keys=["a"]), True,
                 {"kind": "pgmgr", "invariants": ["Inv_C16_registry", "Inv_Capacity"], "actprops": [], "preds": ["P16c", "P16d", "P16f"],
                  "hcfg": {"stress": 24, "stress_rounds": 40}}),
            ],
        },
    },
    "C11": {
        "invariants": ["Inv_C11a", "Inv_C11b"], "actprops": [], "preds": ["C11a", "C11b"],
        "configs": {
            "quick": [
                ("m1", C(InitMax=1, Budget=4, AllowTake=True, AllowRetain=True, AllowSuspend=False), True),
                ("panic", C(InitMax=2, Budget=3, AllowPanic=True, AllowFail=False, GetModes=["nb"], NPost=1), True),
                ("rsz", C(InitMax=2, Budget=3, ResizeTargets=[1, 3], AllowClose=True, AllowSuspend=False, AllowCancel=False), True),
                ("nort", C(InitMax=2, Budget=3, GetModes=["nb", "timed"], CreateTO=["none", "finite"], RecycleTO=["none", "finite"], HasRuntime=False, AllowSuspend=False, AllowCancel=False, AllowFail=False), True),
                ("m1s", C(InitMax=1, Budget=4, AllowTake=True, AllowRetain=True), False),
            ],
            "thorough": [
                ("m1q", C(InitMax=1, Budget=4, AllowTake=True, AllowRetain=True), True),
                ("nort", C(InitMax=2, Budget=4, GetModes=["nb", "timed"], CreateTO=["none", "finite"], RecycleTO=["none", "finite"], HasRuntime=False, AllowSuspend=False, AllowCancel=False, AllowFail=False), True),
                ("m1", C(InitMax=1, Budget=5, AllowTake=True, AllowRetain=True, AllowPanic=True), True),
                ("rsz", C(InitMax=2, Budget=5, ResizeTargets=[1, 3], AllowClose=True, AllowSuspend=False, AllowCancel=False, AllowTake=True), True),
            ],
        },
    },
    "C13": {
        "invariants": ["Inv_C13"], "actprops": [], "preds": ["C13a", "C13b", "C13c"],
        "configs": {
            "quick": [
                ("hooks", C(Tasks=["t1"], InitMax=2, Budget=5, NPre=1, NPost=1, NPc=1, ThreadLevel=False, AllowRetain=True), True),
                ("threadbl", C(InitMax=1, Budget=4, NPost=1, AsyncPost=[1], GetModes=["bl"]), True),
                ("threadnb", C(InitMax=1, Budget=4, NPost=1, AsyncPost=[1], GetModes=["nb"]), True),
                ("thread", C(InitMax=1, Budget=4, NPost=1, AsyncPost=[1]), False),
            ],
            "thorough": [
                ("hooksq", C(Tasks=["t1"], InitMax=2, Budget=6, NPre=1, NPost=1, NPc=1, ThreadLevel=False, AllowRetain=True), True),
                ("threadq", C(InitMax=1, Budget=4, NPost=1, AsyncPost=[1]), True),
                # (two tasks and 6 operations with all hook kinds are 13.7 M states: too much for the tour generator)
                ("hooks", C(InitMax=2, Budget=5, NPre=1, NPost=1, NPc=1, ThreadLevel=False), True),
                ("thread", C(InitMax=2, Budget=4, NPost=1, AsyncPost=[1], NPre=1), True),
            ],
        },
    },
}

PROPS["C05"] = {
    "kind": "unmanaged",
    "invariants": ["Inv_C05_places", "Inv_C05_nodrop", "Inv_C05_max", "Inv_C05_full", "Inv_C05_getters", "Inv_C05_status"],
    "actprops": ["Act_C05_tryadd"],
    "preds": ["U05a", "U05b", "U05c", "U05d", "U05e", "U05f", "U05g"],
    "configs": {
        "quick": [
            ("new", C(MaxSize=2, NObjs=3, Budget=4, GetModes=["try", "bl"]), True),
            ("from", C(MaxSize=2, Preload=2, NObjs=3, Budget=4, HasRuntime=False, GetModes=["try", "bl"]), True),
            ("zero", C(MaxSize=0, NObjs=1, Budget=3), True),
        ],
        "thorough": [
            ("new", C(MaxSize=2, NObjs=3, Budget=6, GetModes=["try", "bl", "timed"]), True),
            ("from", C(MaxSize=2, Preload=2, NObjs=3, Budget=5, HasRuntime=False, GetModes=["try", "bl"]), True),
            ("t3", C(Tasks=["t1", "t2", "t3"], MaxSize=2, NObjs=3, Budget=5), False),
        ],
    },
}
PROPS["C12"] = {
    "kind": "unmanaged",
    "invariants": ["Inv_C12_nounderflow", "Inv_C12_final", "Inv_C12_late", "Inv_C05_places"],
    "actprops": ["Act_C12_closed"],
    "preds": ["U12a", "U12b", "U12c", "U12d", "U12e", "U12f"],
    "configs": {
        "quick": [
            ("close", C(MaxSize=2, Preload=0, NObjs=2, Budget=4, AllowClose=True, GetModes=["try", "bl"]), True),
            ("closefrom", C(MaxSize=1, Preload=1, NObjs=2, Budget=4, AllowClose=True, HasRuntime=False, GetModes=["try", "bl", "timed"], AllowDropPool=True), True),
        ],
        "thorough": [
            ("close", C(MaxSize=2, Preload=0, NObjs=3, Budget=5, AllowClose=True, GetModes=["try", "bl", "timed"]), True),
            ("closefrom", C(MaxSize=2, Preload=2, NObjs=3, Budget=5, AllowClose=True, HasRuntime=False, GetModes=["try", "bl"], AllowDropPool=True), True),
            ("t3", C(Tasks=["t1", "t2", "t3"], MaxSize=1, Preload=1, NObjs=2, Budget=5, AllowClose=True, HasRuntime=False), False),
        ],
    },
}

U = {"kind": "unmanaged", "invariants": ["Inv_C05_places", "Inv_C12_late", "Inv_C05_status"], "actprops": [],
     "preds": ["U10a", "U10b", "U10c", "U12a", "U12b"]}
PROPS["C10"] = {
    "invariants": ["Inv_C02a", "Inv_C02b", "Inv_C02c", "Inv_C09b", "Inv_C04a"], "actprops": [],
    "preds": ["C04c", "C04d", "C10b", "C10c", "C10d"],
    "configs": {
        "quick": [
            {"name": "build", "cases": "build", "spec": "ManagedBuild.tla", "invariants": ["Total"]},
            ("rt", C(InitMax=1, Budget=3, GetModes=["nb", "bl", "timed"], CreateTO=["finite"], RecycleTO=["finite"], AllowFail=False, AllowCancel=False), True),
            ("zero", C(InitMax=1, Budget=3, GetModes=["nb", "timed"], CreateTO=["zero"], RecycleTO=["zero"], AllowCancel=False), True),
            ("nort_wait", C(InitMax=1, Budget=3, GetModes=["nb", "bl", "timed"], HasRuntime=False, AllowCancel=False), True),
            ("nort_create", C(InitMax=1, Budget=3, GetModes=["nb", "bl"], CreateTO=["none", "finite"], HasRuntime=False, AllowCancel=False, AllowSuspend=False), True),
            ("nort_recycle", C(InitMax=1, Budget=3, GetModes=["nb", "bl"], RecycleTO=["none", "finite"], HasRuntime=False, AllowCancel=False, AllowSuspend=False), True),
            ("poollevel", C(Tasks=["t1"], InitMax=1, Budget=4, GetModes=["timed"], CreateTO=["finite"], RecycleTO=["finite"], AllowCancel=False, ThreadLevel=False), True,
             {"hcfg": {"pool_level": True, "pool_wait": "timed", "pool_cto": "finite", "pool_rto": "finite"}}),
            # a pool WITH pool-level timeouts asked through timeout_get() with other per-call values (none in
            # particular): the per-call value decides, time may pass without any deadline
            ("percall", C(Tasks=["t1"], InitMax=1, Budget=4, GetModes=["bl", "timed"], CreateTO=["none", "finite"], RecycleTO=["none", "finite"], AllowCancel=False, AllowFail=False, ThreadLevel=False), True,
             {"hcfg": {"pool_level": True, "pool_wait": "timed", "pool_cto": "finite", "pool_rto": "finite"}}),
            # a timed get() that meets a stale permit (left over from a shrink while the permit was in use) still waits
            ("stale", C(InitMax=1, Budget=5, ResizeTargets=[0, 1], GetModes=["timed"], AllowSuspend=False, AllowCancel=False), True),
            ("u_rt", C(MaxSize=1, NObjs=2, Budget=3, GetModes=["try", "bl", "timed"], HasRuntime=True, AllowTake=False, AllowRemove=False), True, U),
            ("u_nort", C(MaxSize=1, Preload=1, NObjs=1, Budget=3, GetModes=["try", "bl", "timed"], HasRuntime=False, AllowAdd=False), True, U),
        ],
        "thorough": [
            {"name": "build", "cases": "build", "spec": "ManagedBuild.tla", "invariants": ["Total"]},
            ("rt", C(InitMax=1, Budget=4, GetModes=["nb", "bl", "timed"], CreateTO=["finite"], RecycleTO=["finite"]), True),
            ("rt2", C(InitMax=2, Budget=4, GetModes=["bl", "timed"], CreateTO=["finite"], RecycleTO=["finite"], AllowFail=False, NPost=1, AsyncPost=[1]), True),
            ("zero", C(InitMax=1, Budget=4, GetModes=["nb", "timed"], CreateTO=["zero"], RecycleTO=["zero"]), True),
            ("nort_wait", C(InitMax=1, Budget=4, GetModes=["nb", "bl", "timed"], HasRuntime=False), True),
            ("nort_create", C(InitMax=1, Budget=4, GetModes=["nb", "bl"], CreateTO=["none", "zero", "finite"], HasRuntime=False, AllowSuspend=False), True),
            ("nort_recycle", C(InitMax=2, Budget=4, GetModes=["nb", "bl"], RecycleTO=["none", "zero", "finite"], HasRuntime=False, AllowSuspend=False), True),
            ("poollevel", C(Tasks=["t1"], InitMax=2, Budget=5, GetModes=["timed"], CreateTO=["finite"], RecycleTO=["finite"], ThreadLevel=False), True,
             {"hcfg": {"pool_level": True, "pool_wait": "timed", "pool_cto": "finite", "pool_rto": "finite"}}),
            ("percall", C(Tasks=["t1", "t2"], InitMax=1, Budget=4, GetModes=["bl", "timed"], CreateTO=["none", "finite"], RecycleTO=["none", "finite"], ThreadLevel=False), True,
             {"hcfg": {"pool_level": True, "pool_wait": "timed", "pool_cto": "finite", "pool_rto": "finite"}}),
            ("u_rt", C(MaxSize=2, NObjs=2, Budget=4, GetModes=["try", "bl", "timed"], HasRuntime=True), True, U),
            ("u_nort", C(MaxSize=1, Preload=1, NObjs=2, Budget=4, GetModes=["try", "bl", "timed"], HasRuntime=False), True, U),
        ],
    },
}

PROPS["C14"] = {
    "kind": "sync",
    "invariants": ["Inv_DtorOnce", "Inv_DtorEventually", "Inv_UseWhilePresent", "Inv_PanicReported", "Inv_NoAborted"],
    "actprops": ["Act_DtorAfterClosures", "Act_PoisonSticks"],
    "preds": ["S14a", "S14b", "S14c", "S14d", "S14e"],
    "obs_sample": {"quick": 1, "thorough": 1},
    "configs": {
        "quick": [
            ("k1", C(K=1, NInteract=3, MaxPending=1), True),
            ("k2", C(K=2, NInteract=3, MaxPending=2), True),
        ],
        "thorough": [
            ("k1", C(K=1, NInteract=4, MaxPending=2), True),
            ("k2", C(K=2, NInteract=4, MaxPending=2), True),
            ("k3", C(K=3, NInteract=4, MaxPending=3), True),
        ],
    },
}

PROPS["C15"] = {
    "kind": "syncmgr",
    "invariants": ["Inv_NeverReissued", "Inv_Capacity"], "actprops": ["Act_C15"],
    "preds": ["M15a", "M15b", "M15c"],
    "obs_sample": {"quick": 1, "thorough": 1},
    "configs": {
        "quick": [
            ("r2d2", C(MaxSize=2, NConns=4, Budget=5, AllowBreak=True, AllowInvalid=True), True, {"hcfg": {"backend": "r2d2"}}),
            ("sqlite", C(MaxSize=1, NConns=3, Budget=5), True, {"hcfg": {"backend": "sqlite"}}),
            # the same pools with a recycle timeout configured: recycle runs under Runtime::timeout
            ("r2d2_rto", C(MaxSize=1, NConns=3, Budget=4, AllowBreak=True, AllowInvalid=True), True, {"hcfg": {"backend": "r2d2_rto"}}),
            ("sqlite_rto", C(MaxSize=1, NConns=3, Budget=4), True, {"hcfg": {"backend": "sqlite_rto"}}),
            ("diesel", C(MaxSize=1, NConns=3, Budget=5, AllowBreak=True), True, {"hcfg": {"backend": "diesel"}}),
            ("diesel_verified", C(MaxSize=1, NConns=3, Budget=4, AllowBreak=True), True, {"hcfg": {"backend": "diesel_verified"}}),
            ("diesel_query", C(MaxSize=1, NConns=3, Budget=4, AllowBreak=True, AllowInvalid=True), True, {"hcfg": {"backend": "diesel_query"}}),
            ("diesel_fn", C(MaxSize=1, NConns=3, Budget=4, AllowBreak=True, AllowInvalid=True), True, {"hcfg": {"backend": "diesel_fn"}}),
        ],
        "thorough": [
            ("diesel_verified", C(MaxSize=2, NConns=4, Budget=5, AllowBreak=True), True, {"hcfg": {"backend": "diesel_verified"}}),
            ("diesel_query", C(MaxSize=2, NConns=4, Budget=5, AllowBreak=True, AllowInvalid=True), True, {"hcfg": {"backend": "diesel_query"}}),
            ("diesel_fn", C(MaxSize=2, NConns=4, Budget=5, AllowBreak=True, AllowInvalid=True), True, {"hcfg": {"backend": "diesel_fn"}}),
            ("r2d2", C(MaxSize=2, NConns=5, Budget=7, AllowBreak=True, AllowInvalid=True), True, {"hcfg": {"backend": "r2d2"}}),
            ("r2d2m3", C(MaxSize=3, NConns=5, Budget=6, AllowBreak=True), True, {"hcfg": {"backend": "r2d2"}}),
            ("r2d2_rto", C(MaxSize=2, NConns=4, Budget=5, AllowBreak=True, AllowInvalid=True), True, {"hcfg": {"backend": "r2d2_rto"}}),
            ("sqlite_rto", C(MaxSize=2, NConns=4, Budget=5), True, {"hcfg": {"backend": "sqlite_rto"}}),
            ("sqlite", C(MaxSize=2, NConns=4, Budget=6), True, {"hcfg": {"backend": "sqlite"}}),
            ("diesel", C(MaxSize=2, NConns=4, Budget=6, AllowBreak=True), True, {"hcfg": {"backend": "diesel"}}),
        ],
    },
}

def PG(slice_):
    return {"name": "pg_" + slice_, "cases": "pgconfig", "spec": "PgConfig.tla", "invariants": ["Total"],
            "constants": {"Slice": slice_}, "binary": "xh"}


PROPS["C18"] = {
    "kind": "cases", "xh": True, "invariants": ["Total"], "actprops": [], "preds": [],
    "configs": {
        "quick": [PG("identity"), PG("lists"), PG("scalars"), PG("pool")],
        "thorough": [PG("identity"), PG("lists"), PG("scalars_full"), PG("pool")],
    },
}

def RD(slice_):
    return {"name": "redis_" + slice_, "cases": "redisconfig", "spec": "RedisConfig.tla", "invariants": ["Total"],
            "constants": {"Slice": slice_}, "binary": "xh"}


PROPS["C19"] = {
    "kind": "cases", "xh": True, "invariants": ["Total"], "actprops": [], "preds": [],
    "configs": {"quick": [RD("builder"), RD("conv"), RD("serde")], "thorough": [RD("builder"), RD("conv"), RD("serde")]},
}

PROPS["C17"] = {
    "kind": "redismgr", "xh": True,
    "invariants": ["Inv_DeadStayDead", "Inv_Capacity"], "actprops": ["Act_C17", "Act_FreshPing"],
    "preds": ["R17a", "R17b", "R17c", "R17d"],
    "obs_sample": {"quick": 1, "thorough": 1},
    "configs": {
        "quick": [
            ("m1", C(MaxSize=1, NConns=4, Budget=5, Modes=["right", "stale", "wrong", "error", "disconnect"]), True),
            ("m2", C(MaxSize=2, NConns=4, Budget=4, Modes=["right", "stale", "error"]), True),
            # the reply is missing altogether: the pool's recycle timeout (40 ms in the harness) ends the wait
            ("stall", C(MaxSize=1, NConns=4, Budget=4, Modes=["right", "stall"]), True),
        ],
        "thorough": [
            ("m1", C(MaxSize=1, NConns=5, Budget=6, Modes=["right", "stale", "wrong", "error", "disconnect"]), True),
            ("m2", C(MaxSize=2, NConns=5, Budget=5, Modes=["right", "stale", "wrong", "error", "disconnect"]), True),
            ("stall", C(MaxSize=2, NConns=5, Budget=5, Modes=["right", "stall", "error"]), True),
        ],
    },
}

PROPS["C16"] = {
    "kind": "pgmgr", "xh": True,
    "invariants": ["Inv_C16_registry", "Inv_C16_cache", "Inv_DeadStayDead", "Inv_Capacity"], "actprops": ["Act_C16_closed"],
    "preds": ["P16a", "P16b", "P16c", "P16d", "P16e", "P16f"],
    "obs_sample": {"quick": 1, "thorough": 1},
    "configs": {
        "quick": [
            ("fast", C(MaxSize=2, NConns=3, Budget=4, Method="fast", Keys=["a", "p:int4", "p:text"], AllowDrop=True), True),
            ("verified", C(MaxSize=1, NConns=3, Budget=4, Method="verified", Modes=["ok", "error", "disconnect"], Keys=["a"], AllowDrop=True), True),
            ("clean", C(MaxSize=1, NConns=3, Budget=3, Method="clean", Modes=["ok", "error"], Keys=["p:int4"]), True),
            ("custom", C(MaxSize=2, NConns=3, Budget=4, Method="custom", Modes=["ok", "disconnect"], Keys=["p:int4", "p:text"]), True),
            # three clients, concurrent takes: the registry's bookkeeping under contention
            ("fast3", C(MaxSize=3, NConns=3, Budget=5, Method="fast", Keys=["a"]), True, {"hcfg": {"stress": 24, "stress_rounds": 6}}),
        ],
        "thorough": [
            ("fast", C(MaxSize=2, NConns=4, Budget=5, Method="fast", Keys=["a", "p:int4", "p:text"], AllowDrop=True), True),
            ("verified", C(MaxSize=2, NConns=4, Budget=5, Method="verified", Modes=["ok", "error", "disconnect"], Keys=["a", "p:text"], AllowDrop=True), True),
            ("clean", C(MaxSize=2, NConns=4, Budget=4, Method="clean", Modes=["ok", "error", "disconnect"], Keys=["p:int4"], AllowDrop=True), True),
            ("custom", C(MaxSize=2, NConns=4, Budget=5, Method="custom", Modes=["ok", "error", "disconnect"], Keys=["p:int4", "p:text"]), True),
            ("fast3", C(MaxSize=3, NConns=4, Budget=5, Method="fast", Keys=["a"]), True, {"hcfg": {"stress": 24, "stress_rounds": 40}}),
        ],
    },
}


def RC(tasks=3, init_max=2, **kw):
    cfg = {"tasks": ["t%d" % i for i in range(1, tasks + 1)], "init_max": init_max, "has_runtime": True}
    for k in ("npre", "npost", "npc", "async_pre", "async_post", "async_pc", "lifo", "has_runtime", "unwind_drops"):
        if k in kw:
            cfg[k] = kw.pop(k)
    rc = {"cfg": cfg, "modes": ["nb", "bl"], "ctos": ["none"], "rtos": ["none"], "ops": 30, "max_objs": 24}
    rc.update(kw)
    return rc


R_PLAIN = RC(tasks=4, init_max=3, npost=1, async_post=[1], allow_take=True, allow_retain=True, allow_panic=True, unwind_drops=True)
R_TIMED = RC(tasks=3, init_max=2, npre=1, npc=1, async_pc=[1], modes=["nb", "bl", "timed"], ctos=["none", "finite"], rtos=["none", "finite"],
             allow_take=True, allow_panic=True)
R_RESIZE = RC(tasks=4, init_max=2, resize_targets=[0, 1, 3, 4], allow_retain=True, allow_take=True, npost=1)
R_CLOSE = RC(tasks=3, init_max=2, resize_targets=[1, 3], allow_close=True, allow_drop_pool=True, allow_take=True, allow_retain=True)
R_HOOKS = RC(tasks=3, init_max=3, npre=2, async_pre=[2], npost=2, async_post=[1], npc=2, async_pc=[2], lifo=True, allow_retain=True)
R_NORT = RC(tasks=2, init_max=2, has_runtime=False, modes=["nb", "bl", "timed"], ctos=["none", "finite"], rtos=["none", "finite"], allow_cancel=False)

for pid, (quick, thorough) in {
    "C01": ([("plain", R_PLAIN, 150, 300)], [("plain", R_PLAIN, 4000, 600), ("hooks", R_HOOKS, 2000, 600)]),
    "C02": ([("plain", R_PLAIN, 100, 300), ("timed", R_TIMED, 100, 300), ("resize", R_RESIZE, 100, 300)],
            [("plain", R_PLAIN, 4000, 600), ("timed", R_TIMED, 4000, 600), ("resize", R_RESIZE, 3000, 600)]),
    "C03": ([("timed", R_TIMED, 150, 300)], [("timed", R_TIMED, 4000, 600), ("hooks", R_HOOKS, 2000, 600)]),
    "C04": ([("hooks", R_HOOKS, 150, 300)], [("hooks", R_HOOKS, 4000, 600), ("timed", R_TIMED, 2000, 600)]),
    "C06": ([("close", R_CLOSE, 150, 300)], [("close", R_CLOSE, 5000, 600)]),
    "C07": ([("resize", R_RESIZE, 150, 300)], [("resize", R_RESIZE, 5000, 600)]),
    "C08": ([("hooks", R_HOOKS, 100, 300)], [("hooks", R_HOOKS, 3000, 600), ("plain", R_PLAIN, 2000, 600)]),
    "C09": ([("resize", R_RESIZE, 100, 300), ("close", R_CLOSE, 100, 300)], [("resize", R_RESIZE, 3000, 600), ("close", R_CLOSE, 3000, 600)]),
    "C10": ([("timed", R_TIMED, 100, 300), ("nort", R_NORT, 100, 200)], [("timed", R_TIMED, 4000, 600), ("nort", R_NORT, 2000, 400)]),
    "C11": ([("resize", R_RESIZE, 100, 300), ("plain", R_PLAIN, 100, 300)], [("resize", R_RESIZE, 3000, 600), ("plain", R_PLAIN, 3000, 600)]),
    "C13": ([("hooks", R_HOOKS, 150, 300)], [("hooks", R_HOOKS, 4000, 600)]),
}.items():
    PROPS[pid]["random"] = {"quick": quick, "thorough": thorough}


def URC(tasks=3, max_size=3, preload=0, nobjs=5, has_runtime=True, **kw):
    d = {"cfg": {"tasks": ["t%d" % (i + 1) for i in range(tasks)], "max_size": max_size, "preload": preload, "nobjs": nobjs, "has_runtime": has_runtime},
         "modes": ["try", "bl", "timed"], "allow_close": False, "allow_take": True, "allow_remove": True, "allow_add": True,
         "allow_cancel": True, "allow_drop_pool": False, "ops": 30}
    d.update(kw)
    return d


UR_PLAIN = URC()
UR_FROM = URC(tasks=3, max_size=3, preload=3, nobjs=5, has_runtime=False)  # (a pool built From an iterator has no runtime)
UR_CLOSE = URC(tasks=4, max_size=2, nobjs=4, allow_close=True, allow_drop_pool=True)
UR_NORT = URC(tasks=2, max_size=2, preload=2, nobjs=3, has_runtime=False)
for pid, (quick, thorough) in {
    "C05": ([("uplain", UR_PLAIN, 150, 300, "unmanaged"), ("ufrom", UR_FROM, 100, 300, "unmanaged")],
            [("uplain", UR_PLAIN, 4000, 600, "unmanaged"), ("ufrom", UR_FROM, 3000, 600, "unmanaged")]),
    "C12": ([("uclose", UR_CLOSE, 200, 300, "unmanaged")], [("uclose", UR_CLOSE, 6000, 600, "unmanaged")]),
}.items():
    PROPS[pid]["random"] = {"quick": quick, "thorough": thorough}
for tier, n in (("quick", 100), ("thorough", 3000)):
    PROPS["C10"]["random"][tier] = list(PROPS["C10"]["random"][tier]) + [("unort", UR_NORT, n, 200, "unmanaged"), ("uclose", UR_CLOSE, n, 300, "unmanaged")]

REFINE = C(Tasks=["t1", "t2"], InitMax=2, MaxObjs=3, Budget=4, NPost=1, AsyncPost=[1], AllowTake=True, AllowPanic=True)
UREFINE = C(Tasks=["t1", "t2", "t3"], MaxSize=2, NObjs=3, Budget=5, GetModes=["try", "bl", "timed"])
PROPS["C05"]["extra"] = {"thorough": ["ucounting"], "quick": [], "refine_consts": UREFINE}

ULIVE = {"spec": "FairSpec", "invariants": ["TypeOK"], "actprops": ["Live_C05_get", "Live_C05_add"]}
PROPS["C05"]["configs"]["quick"].append(
    ("live", C(MaxSize=1, NObjs=2, Budget=4, GetModes=["bl", "timed"], AllowClose=True, AllowCancel=False), False, ULIVE))
PROPS["C05"]["configs"]["thorough"].append(
    ("live", C(Tasks=["t1", "t2", "t3"], MaxSize=2, NObjs=2, Budget=4, GetModes=["bl", "timed"], AllowClose=True, AllowCancel=False), False, ULIVE))

for pid in ("C01", "C02"):
    PROPS[pid]["extra"] = {"thorough": ["counting"], "quick": [], "refine_consts": REFINE}

LIVE = {"spec": "FairSpec", "invariants": ["TypeOK"], "actprops": ["Live_C02d"]}
PROPS["C02"]["configs"]["quick"].append(
    ("live", C(InitMax=1, MaxObjs=2, Budget=3, GetModes=["bl", "timed"], HoldAndWait=False), False, LIVE))
PROPS["C02"]["configs"]["thorough"].append(
    ("live", C(Tasks=["t1", "t2", "t3"], InitMax=2, MaxObjs=3, Budget=4, GetModes=["bl", "timed"], HoldAndWait=False,
               ResizeTargets=[1, 3], AllowTake=True), False, LIVE))

# vacuity guard: actions of the specification that must have been taken (TLC -coverage) in some
# configuration of the property's check, or the check is a tool error
REQUIRED_ACTIONS = {
    "C01": ["GPop", "Call", "Cancel", "GWaitCancel", "TkLock", "RtPred", "UDrop", "CUnres"],
    "C02": ["GWaitPoll", "GWaitExpire", "Cancel", "UDrop", "CUnres", "TkAdd", "RetAdd"],
    "C03": ["Cancel", "GWaitCancel", "UDrop", "CUnres", "Resume"],
    "C04": ["Call", "Resume", "Expire", "UDrop", "CUnres", "GExit"],
    "C05": ["AAcq", "AWaitPoll", "AWaitCancel", "Tk", "DPush", "GWaitPoll", "GWaitCancel"],
    "C06": ["ClLock", "RsLock", "GWaitPoll", "DropPool", "RetLock"],
    "C07": ["RsLock", "RsForget", "RsGrow", "GPop"],
    "C08": ["RtPred", "GPop", "RetLock", "UDrop"],
    "C09": ["RtPred", "TkLock", "TkAdd", "RsForget", "ClLock"],
    "C10": ["GWaitExpire", "Expire", "GUsers", "GAcq", "Tick"],
    "C11": ["RsForget", "RsGrow", "ClLock", "TkLock", "RtPred"],
    "C12": ["CSem", "CSsem", "CClear", "GClosed", "DClean", "AWaitPoll", "DropPool"],
    "C13": ["Call", "GExit", "UDrop"],
    "C14": ["StartJob", "Lock", "Release", "Cancel", "DropWrapper"],
    "C15": ["Get", "GetResume", "InteractCancel", "Finish", "Break", "Invalidate", "UnwindReturn"],
    "C16": ["Get", "Drop", "Prepare", "PrepareG", "PrepareJoin", "TxPrepare", "Clear", "Remove", "Take", "TakeBusy", "TakeBoth"],
    "C17": ["Get", "Watch", "Take", "Return"],
}
