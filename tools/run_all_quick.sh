#!/bin/bash
# Run every registered quick check on the tree as it is; summary to work/all_quick.log
cd /verif
: > work/all_quick.log
for p in C01 C02 C03 C04 C05 C06 C07 C08 C09 C10 C11 C12 C13 C14 C15 C16 C17 C18 C19; do
  t0=$(date +%s)
  VERIF_SEED=${VERIF_SEED:-1} ./check $p --tier quick > work/q_$p.log 2>&1; rc=$?
  echo "$p rc=$rc $(( $(date +%s) - t0 ))s $(grep -E 'VIOLATION|MODEL-DRIFT|TOOL-ERROR' work/q_$p.log | head -2 | cut -c1-200)" >> work/all_quick.log
done
echo ALLDONE >> work/all_quick.log
