"""Shared pipeline of the managed-pool checks: build harness, TLC (+graph dump), tour,
direction-A replay on the real code, observation monitor, verdict, evidence."""
import hashlib
import json
import os
import re
import shutil
import subprocess
import sys
import time

HERE = os.path.dirname(os.path.abspath(__file__))
ROOT = os.path.dirname(HERE)
sys.path.insert(0, HERE)
import configs  # noqa: E402
import tlcgraph  # noqa: E402
import obsmon  # noqa: E402

MH = os.path.join(ROOT, "harness", "target", "debug", "mh")
XH = os.path.join(ROOT, "harness", "target", "debug", "xh")
WORKERS = int(os.environ.get("VERIF_WORKERS", "12"))


class ToolError(Exception):
    pass


def log(*a):
    print(*a, flush=True)


def build_harness(pkg="mh"):
    t0 = time.time()
    p = subprocess.run(["cargo", "build", "--offline", "-p", pkg], cwd=os.path.join(ROOT, "harness"),
                       capture_output=True, text=True)
    if p.returncode != 0:
        sys.stderr.write(p.stdout[-3000:] + p.stderr[-6000:])
        raise ToolError("harness build failed (does /repo still compile with --cfg deadpool_verif?)")
    return time.time() - t0


def run_tlc(spec, cfg_path, workdir, dump_dot=None, extra=(), timeout=3600, workers=None, coverage=True):
    cmd = ["timeout", str(timeout), "tlc", "-workers", str(workers or WORKERS), "-metadir", os.path.join(workdir, "tlcmeta"),
           "-cleanup", "-noGenerateSpecTE"]
    if coverage:
        cmd += ["-coverage", "1"]
    if dump_dot:
        cmd += ["-dump", "dot,actionlabels", dump_dot]
    cmd += ["-config", cfg_path, *extra, spec]
    t0 = time.time()
    # TLC unpacks its standard modules into java.io.tmpdir (/tmp/tlc-*) and never removes them
    jtmp = os.path.join(workdir, "jtmp")
    os.makedirs(jtmp, exist_ok=True)
    env = dict(os.environ)
    env["JAVA_TOOL_OPTIONS"] = (env.get("JAVA_TOOL_OPTIONS", "") + " -Djava.io.tmpdir=" + jtmp).strip()
    p = subprocess.run(cmd, cwd=os.path.join(ROOT, "spec"), capture_output=True, text=True, env=env)
    shutil.rmtree(jtmp, ignore_errors=True)
    out = p.stdout + p.stderr
    if p.returncode == 124:
        # killed by the time limit: TLC leaves its state files behind
        shutil.rmtree(os.path.join(workdir, "tlcmeta"), ignore_errors=True)
        out += "\nTLC did not finish within %d s" % timeout
    m = re.search(r'(\d+) states generated, (\d+) distinct states found', out)
    res = {"tlc_s": round(time.time() - t0, 2), "ok": "No error has been found" in out,
           "generated": int(m.group(1)) if m else 0, "distinct": int(m.group(2)) if m else 0, "out": out}
    dm = re.search(r'depth of the complete state graph search is (\d+)', out)
    res["depth"] = int(dm.group(1)) if dm else 0
    # per-action coverage: <Action line .. of module ManagedPool>: distinct:total
    acts = {}
    for am in re.finditer(r'<(\w+) line \d+, col \d+ to line \d+, col \d+ of module \w+>: (\d+):(\d+)', out):
        acts[am.group(1)] = acts.get(am.group(1), 0) + int(am.group(3))
    res["actions"] = acts
    return res


def violated_names(out):
    names = re.findall(r'Invariant (\w+) is violated', out)
    names += re.findall(r'Action property (\w+) is violated', out)
    names += re.findall(r'Temporal properties were violated', out)
    return names


KINDS = {
    "managed": {"spec": "ManagedPool.tla", "monitor": "ManagedObs.tla", "base": configs.BASE, "hcfg": tlcgraph.harness_cfg},
    "unmanaged": {"spec": "UnmanagedPool.tla", "monitor": "UnmanagedObs.tla", "base": configs.UBASE,
                  "hcfg": tlcgraph.harness_cfg_unmanaged},
    "syncmgr": {"spec": "SyncManagers.tla", "monitor": "SyncMgrObs.tla", "base": configs.MBASE, "hcfg": tlcgraph.harness_cfg_syncmgr,
                "binary": "xh"},
    "pgmgr": {"spec": "PgManager.tla", "monitor": "PgObs.tla", "base": configs.PBASE, "hcfg": tlcgraph.harness_cfg_pgmgr, "binary": "xh"},
    "redismgr": {"spec": "RedisManager.tla", "monitor": "RedisObs.tla", "base": configs.RBASE, "hcfg": tlcgraph.harness_cfg_redismgr,
                 "binary": "xh"},
    "sync": {"spec": "SyncWrapper.tla", "monitor": "SyncObs.tla", "base": configs.SBASE, "hcfg": tlcgraph.harness_cfg_sync},
}


def run_cases(name, part, workdir, binary=None):
    """A decision-table spec: TLC enumerates the cases (initial states), the harness runs
    each on the real code."""
    os.makedirs(workdir, exist_ok=True)
    cfg_path = os.path.join(workdir, name + ".cfg")
    consts = part.get("constants", {})
    with open(cfg_path, "w") as f:
        f.write("SPECIFICATION Spec\n")
        if consts:
            f.write("CONSTANTS\n" + "".join("  %s = %s\n" % (k, configs.tla(v)) for k, v in consts.items()))
        f.write("INVARIANTS Emit %s\nCHECK_DEADLOCK FALSE\n" % " ".join(part.get("invariants", [])))
    r = run_tlc(os.path.join(ROOT, "spec", part["spec"]), cfg_path, workdir, workers=1)
    if not r["ok"]:
        sys.stderr.write(r["out"][-4000:])
        raise ToolError("TLC reports an error on %s" % part["spec"])
    cases_file = os.path.join(workdir, name + ".cases.jsonl")
    n = 0
    with open(cases_file, "w") as f:
        for m in re.finditer(r'^<<"CASE", "(.*)">>$', r["out"], re.M):
            f.write(m.group(1).replace('\\"', '"').replace('\\\\', '\\') + "\n")
            n += 1
    res_file = os.path.join(workdir, name + ".cases.result.json")
    t0 = time.time()
    p = subprocess.run([binary or MH, "cases", part["cases"], cases_file, "--result", res_file], capture_output=True, text=True)
    if p.returncode != 0 or not os.path.exists(res_file):
        sys.stderr.write(p.stdout[-2000:] + p.stderr[-4000:])
        raise ToolError("cases harness failed on %s" % name)
    rr = json.load(open(res_file))
    if rr.get("table_errors", 0):
        te = [m.get("table_error") for m in rr["first_mismatches"] if m.get("table_error")]
        raise ToolError("constants of %s disagree with the library they describe: %s" % (part["spec"], te[:2]))
    info = {"config": name, "spec": part["spec"], "states": r["distinct"], "transitions": max(r["generated"], 1), "depth": r["depth"],
            "tlc_s": r["tlc_s"], "actions_taken": {}, "cases": rr["cases"], "mismatch": rr["mismatch"],
            "first_mismatches": rr["first_mismatches"][:5], "conform": rr["cases"] - rr["mismatch"], "nonconform": 0,
            "replay_s": round(time.time() - t0, 2), "case_samples": rr["samples"][:2], "cases_file": cases_file}
    if n != rr["cases"]:
        raise ToolError("case count mismatch: TLC printed %d, harness ran %d" % (n, rr["cases"]))
    return info


def run_config(pid, name, consts, invariants, actprops, workdir, obs_sample, replay=True, kind="managed", hcfg_extra=None,
               threads=None, tla_spec="Spec"):
    """TLC on one configuration (+ tour + replay).  Returns a dict of measurements."""
    K = KINDS[kind]
    os.makedirs(workdir, exist_ok=True)
    cfg_path = os.path.join(workdir, name + ".cfg")
    open(cfg_path, "w").write(configs.cfg_text(consts, invariants, actprops, base=K["base"], spec=tla_spec))
    spec = os.path.join(ROOT, "spec", K["spec"])
    dot = os.path.join(workdir, name + ".dot") if replay else None
    # (configurations that are only model-checked are the big ones: no coverage statistics, a longer limit)
    r = run_tlc(spec, cfg_path, workdir, dump_dot=dot, coverage=replay, timeout=3600 if replay else 10800)
    info = {"config": name, "constants": {k: v for k, v in consts.items()}, "states": r["distinct"],
            "transitions": r["generated"], "depth": r["depth"], "tlc_s": r["tlc_s"], "actions_taken": r["actions"]}
    if not r["ok"]:
        sys.stderr.write(r["out"][-5000:])
        if "TLC did not finish within" in r["out"]:
            raise ToolError("TLC did not finish on config %s within its time limit" % name)
        raise ToolError("TLC reports an error on the design spec, config %s: %s (the specification, not the code, "
                        "is at fault until reproduced on the code)" % (name, violated_names(r["out"])))
    if not replay:
        return info
    t0 = time.time()
    nodes, edges, init = tlcgraph.load_dot(dot)
    sites = tlcgraph.site_map(spec)
    paths = tlcgraph.tour(nodes, edges, init, 400)
    full = dict(K["base"])
    full.update(consts)
    hcfg = K["hcfg"](full)
    hcfg.update(hcfg_extra or {})
    paths_file = os.path.join(workdir, name + ".paths.jsonl")
    meta = {"nodes": len(nodes), "edges": len(edges), "paths": len(paths), "cfg_file": name}
    nsteps = tlcgraph.write_paths(paths_file, hcfg, nodes, edges, paths, sites, meta, kind=kind)
    os.remove(dot)
    info.update({"edges": len(edges), "paths": len(paths), "tour_steps": nsteps, "tour_s": round(time.time() - t0, 2)})
    # replay on the real code
    res_file = os.path.join(workdir, name + ".result.json")
    obs_file = os.path.join(workdir, name + ".obs.ndjson")
    t0 = time.time()
    binary = XH if K.get("binary") == "xh" else MH
    crashers = []
    for attempt in range(20):
        prog = os.path.join(workdir, name + ".progress")
        if os.path.exists(prog):
            os.remove(prog)
        if os.path.exists(res_file):
            os.remove(res_file)
        cmd = [binary, "replay", paths_file, "--result", res_file, "--obs", obs_file, "--threads", str(threads or WORKERS),
               "--obs-sample", str(obs_sample), "--progress", prog]
        if crashers:
            cmd += ["--skip", ",".join(str(c) for c in crashers)]
        p = subprocess.run(cmd, capture_output=True, text=True)
        if p.returncode == 0 and os.path.exists(res_file):
            break
        # The process died.  If the code under test took it down (a panic inside a destructor while another panic
        # unwinds aborts the process) the paths in flight tell which behaviour did it: each is re-run alone.
        started, ended = set(), set()
        if os.path.exists(prog):
            for line in open(prog):
                tag, _, pid_ = line.strip().partition(" ")
                (started if tag == "S" else ended).add(int(pid_))
        new_crashers = []
        for cand in sorted(started - ended):
            q = subprocess.run([binary, "replay", paths_file, "--result", res_file + ".one", "--threads", "1", "--only", str(cand)],
                               capture_output=True, text=True)
            if q.returncode != 0:
                new_crashers.append((cand, (q.stderr or "")[-600:]))
        if not new_crashers:
            sys.stderr.write(p.stdout[-2000:] + p.stderr[-4000:])
            raise ToolError("replay harness failed on config %s" % name)
        for cand, err in new_crashers:
            log("[%s]   the process was aborted while executing path %d of config %s: %s" % (pid, cand, name, " ".join(err.split())[-300:]))
            crashers.append(cand)
        if len(crashers) >= 8:
            break
    info["crash_ids"] = crashers
    if not os.path.exists(res_file):
        # the code under test keeps taking the process down: the paths found so far are the finding, the rest
        # of this configuration's tour is not executed
        log("[%s]   config %s: %d paths abort the process; the rest of the tour was not executed" % (pid, name, len(crashers)))
        info.update({"replayed": 0, "conform": 0, "nonconform": len(crashers), "hung": 0, "inconclusive": 0, "replay_s": round(time.time() - t0, 2),
                     "first_divergences": [], "nonconform_ids": crashers, "obs_events": 0, "monitor_s": 0, "viol": {}, "paths_file": paths_file, "hcfg": hcfg})
        return info
    rr = json.load(open(res_file))
    if rr.get("not_executed_after_hangs"):
        log("[%s]   %d paths of config %s blocked inside the code under test (no schedule point reached); %d further paths were not executed"
            % (pid, rr["hung"], name, rr["not_executed_after_hangs"]))
    info.update({"replayed": rr["paths"], "conform": rr["conform"], "nonconform": rr["nonconform"] + rr.get("not_executed_after_hangs", 0), "hung": rr["hung"], "inconclusive": rr.get("inconclusive", 0),
                 "replay_s": round(time.time() - t0, 2), "first_divergences": rr["first_divergences"][:3],
                 "nonconform_ids": rr["nonconform_ids"][:50]})
    mon = obsmon.monitor(obs_file, hcfg, os.path.join(workdir, "obsmon_" + name), spec=K["monitor"])
    info.update({"obs_events": mon["events"], "monitor_s": round(mon["tlc_s"], 2), "viol": mon["viol"]})
    info["paths_file"] = paths_file
    info["hcfg"] = hcfg
    return info


def run_random(pid, name, rc, runs, steps, seed, workdir, preds, kind="managed"):
    """Direction B: seeded random schedules on the real pool; the recorded trace is validated against
    ManagedTrace.tla / UnmanagedTrace.tla (all invariants evaluated on the observed behaviour) and the
    observation log is judged by the monitor specification."""
    import tracecheck
    os.makedirs(workdir, exist_ok=True)
    rcf = os.path.join(workdir, name + ".rand.json")
    json.dump(rc, open(rcf, "w"))
    trace = os.path.join(workdir, name + ".trace.ndjson")
    obs = os.path.join(workdir, name + ".randobs.ndjson")
    t0 = time.time()
    p = subprocess.run([MH, "urandom" if kind == "unmanaged" else "random", "--cfg", rcf, "--runs", str(runs), "--seed", str(seed), "--steps", str(steps),
                        "--trace", trace, "--obs", obs], capture_output=True, text=True)
    if p.returncode != 0:
        # The driver died.  If the code under test took the process down (a panic in a destructor while another
        # panic unwinds), some single run reproduces it: that run is the finding, the rest of the batch is dropped.
        sub = "urandom" if kind == "unmanaged" else "random"
        for r_ in range(runs):
            q = subprocess.run([MH, sub, "--cfg", rcf, "--runs", "1", "--start", str(r_), "--seed", str(seed), "--steps", str(steps),
                                "--trace", trace + ".one", "--obs", obs + ".one"], capture_output=True, text=True)
            if q.returncode != 0:
                log("[%s]   the process was aborted while executing random run %d of %s: %s" % (pid, r_, name, " ".join((q.stderr or "").split())[-300:]))
                return {"config": "random:" + name, "kind": kind, "violated_run": None, "states": 0, "transitions": 1, "depth": 0, "tlc_s": 0,
                        "actions_taken": {}, "runs": runs, "random_steps": 0, "hung": 0, "conform": 0, "nonconform": 0, "trace_events": 0,
                        "first_divergences": [], "spec_violations_on_trace": [], "replay_s": round(time.time() - t0, 2), "obs_events": 0,
                        "viol": {"process_abort": [(r_, 0)]}, "random": {"rc": rc, "seed": seed, "steps": steps, "pool": kind}, "case_samples": [[]]}
        sys.stderr.write(p.stdout[-2000:] + p.stderr[-4000:])
        raise ToolError("random driver failed on %s" % name)
    drv = json.loads(p.stdout.strip().splitlines()[-1])
    tv = tracecheck.validate(trace, rc, os.path.join(workdir, "trace_" + name), kind=kind)
    hcfg = dict(rc["cfg"])
    mon = obsmon.monitor(obs, hcfg, os.path.join(workdir, "obsmon_rand_" + name), spec=KINDS[kind]["monitor"])
    rejected_runs = sorted(set(r["run"] for r in tv["rejected"]))
    # an invariant / action property of the specification false on the observed behaviour: where?
    tv["violated_run"] = None
    if tv["violated"] and tv.get("violated_at_event"):
        with open(trace) as f:
            for i, line in enumerate(f):
                if i + 1 >= tv["violated_at_event"]:
                    e = json.loads(line)
                    tv["violated_run"] = (e.get("run", 0), e.get("seq", 0))
                    break
    info = {"config": "random:" + name, "kind": kind, "violated_run": tv["violated_run"], "states": tv["states"], "transitions": max(tv["events"], 1), "depth": 0,
            "tlc_s": tv["tlc_s"], "actions_taken": {}, "runs": runs, "random_steps": drv["steps"], "hung": drv["hung"],
            "conform": runs - len(rejected_runs), "nonconform": len(rejected_runs), "trace_events": tv["events"],
            "first_divergences": tv["rejected"][:3], "spec_violations_on_trace": tv["violated"],
            "replay_s": round(time.time() - t0, 2), "obs_events": mon["events"], "viol": mon["viol"],
            "random": {"rc": rc, "seed": seed, "steps": steps, "pool": kind}}
    samples = []
    with open(trace) as f:
        for i, line in enumerate(f):
            if 1 <= i <= 14:
                e = json.loads(line)
                samples.append("%s(%s)" % (e["act"], ",".join([e["task"]] + [json.dumps(x) for x in e["x"]])))
    info["case_samples"] = [samples]
    return info


def extract_path(paths_file, pid):
    """Re-expand one path of a compact paths file into a self-contained replay file."""
    labels, nodes, head = None, {}, None
    with open(paths_file) as f:
        for line in f:
            v = json.loads(line)
            if "cfg" in v:
                head = v
            elif "labels" in v:
                labels = v["labels"]
            elif "n" in v:
                nodes[v["n"]] = v["post"]
            elif "e" in v and v["id"] == pid:
                steps = []
                for li, ni in v["e"]:
                    s = dict(labels[li])
                    s["post"] = nodes[ni]
                    steps.append(s)
                return {"cfg": head["cfg"], "steps": steps}
    return None


def sample_paths(paths_file, k=2):
    out = []
    labels = None
    with open(paths_file) as f:
        for line in f:
            v = json.loads(line)
            if "labels" in v:
                labels = v["labels"]
            elif "e" in v:
                if len(v["e"]) >= 8:
                    out.append(["%s(%s)" % (labels[li]["a"], ",".join([labels[li]["t"]] + [json.dumps(x) for x in labels[li]["x"]]))
                                for li, _ in v["e"]])
                if len(out) >= k:
                    break
    return out


def write_evidence(pid, tier, seed, cov, wall, violations, assumptions):
    ev = {"property_id": pid, "tier": tier, "seed": seed, "level": "model_checking", "coverage": cov,
          "assumptions": assumptions, "wall_s": round(wall, 2), "violations": violations}
    os.makedirs(os.path.join(ROOT, "evidence"), exist_ok=True)
    json.dump(ev, open(os.path.join(ROOT, "evidence", pid + ".json"), "w"), indent=1)


ASSUME = [
    "tokio::sync::Semaphore is linearisable and behaves as Semaphore section of DESIGN.md (its real implementation is exercised by every replay)",
    "sequential consistency between schedule points; code between two consecutive points performs at most one shared access",
    "bounded: tasks, objects, operations per run as listed under configs",
]


def managed_check(pid, tier, seed):
    t_start = time.time()
    spec = configs.PROPS[pid]
    workdir = os.path.join(ROOT, "work", "%s_%s" % (pid, tier))
    shutil.rmtree(workdir, ignore_errors=True)
    os.makedirs(workdir)
    uses_xh = spec.get("kind") in ("syncmgr",) or spec.get("xh")
    build_s = build_harness("xh" if uses_xh else "mh")
    if spec.get("xh_too"):
        build_s += build_harness("xh")
    infos = []
    violations = []   # (config, pred, run, i)
    for entry in spec["configs"][tier]:
        if isinstance(entry, dict):
            log("[%s] table %s (%s): TLC enumerates the cases, the harness runs them on the code ..." % (pid, entry["name"], entry["spec"]))
            info = run_cases(entry["name"], entry, workdir, binary=XH if entry.get("binary") == "xh" else None)
            infos.append(info)
            log("[%s]   %d cases, %d mismatch, %.1fs" % (pid, info["cases"], info["mismatch"], info["tlc_s"] + info["replay_s"]))
            for mm in info["first_mismatches"]:
                violations.append((entry["name"], "table", mm, 0))
            continue
        name, consts, replay = entry[:3]
        opts = entry[3] if len(entry) > 3 else {}
        kind = opts.get("kind", spec.get("kind", "managed"))
        struct = configs.STRUCT if kind == "managed" else configs.USTRUCT
        preds = opts.get("preds", spec["preds"])
        threads = 4 if kind in ("sync", "syncmgr", "redismgr", "pgmgr") else None
        log("[%s] config %s: TLC%s ..." % (pid, name, " + tour + replay" if replay else " (model checking only)"))
        info = run_config(pid, name, consts, (struct if "invariants" not in opts else []) + opts.get("invariants", spec["invariants"]), opts.get("actprops", spec["actprops"]),
                          workdir, obs_sample=spec.get("obs_sample", {}).get(tier, 50), replay=replay, kind=kind,
                          hcfg_extra=opts.get("hcfg"), threads=threads, tla_spec=opts.get("spec", "Spec"))
        info["kind"] = kind
        infos.append(info)
        log("[%s]   %d distinct states, %d transitions, depth %d, %.1fs" % (pid, info["states"], info["transitions"], info["depth"], info["tlc_s"]))
        if replay:
            log("[%s]   tour: %d paths / %d steps covering %d edges; replay: %d conform, %d do not (%d hung) in %.1fs; monitor: %d events"
                % (pid, info["paths"], info["tour_steps"], info["edges"], info["conform"], info["nonconform"], info["hung"],
                   info["replay_s"], info["obs_events"]))
            for pred, where in info["viol"].items():
                if pred in preds:
                    for run, i in where:
                        violations.append((name, pred, run, i))
            # a behaviour of the specification on which the code under test aborts the whole process
            for cid in info.get("crash_ids", []):
                violations.append((name, "process_abort", cid, 0))
    for rentry in spec.get("random", {}).get(tier, []):
        (name, rcfg, runs, steps) = rentry[:4]
        rkind = rentry[4] if len(rentry) > 4 else "managed"
        log("[%s] random schedules %s: %d runs x <= %d steps on the real pool, trace validation + monitor ..." % (pid, name, runs, steps))
        info = run_random(pid, name, rcfg, runs, steps, seed, workdir, spec["preds"], kind=rkind)
        infos.append(info)
        log("[%s]   %d steps executed; trace: %d events, %d runs accepted, %d rejected; monitor: %d events"
            % (pid, info["random_steps"], info["trace_events"], info["conform"], info["nonconform"], info["obs_events"]))
        if info["spec_violations_on_trace"]:
            # the behaviour was accepted step by step up to here and an invariant of the specification is false
            # in the state reached: the code did it.  TLC stops at the first one.
            log("[%s]   specification invariants violated on the observed behaviour: %s (run, seq) = %s"
                % (pid, info["spec_violations_on_trace"], info["violated_run"]))
            own = set(spec["invariants"] + spec["actprops"] + ["T" + a for a in spec["actprops"]])
            for inv in info["spec_violations_on_trace"]:
                run_, seq_ = info["violated_run"] or (0, 0)
                if inv in own:
                    violations.append((info["config"], inv, run_, seq_))
                else:
                    print("TRACE-INVARIANT property=%s invariant=%s run=%s (not among the property's own invariants; the rest of the batch was not validated)"
                          % (pid, inv, run_), flush=True)
        for pred, where in info["viol"].items():
            if pred in spec["preds"] or pred == "process_abort":
                for run, i in where:
                    violations.append((info["config"], pred, run, i))
    extra = {}
    if "counting" in spec.get("extra", {}).get(tier, []):
        log("[%s] unbounded design-level argument: Apalache discharges the inductive invariant of ManagedCounting.tla ..." % pid)
        t0 = time.time()
        p = subprocess.run([os.path.join(ROOT, "tools", "apalache_counting.sh")], capture_output=True, text=True)
        obs_ = re.findall(r'OBLIGATION (.*): (discharged|FAILED)', p.stdout)
        for n, r in obs_:
            log("[%s]   %s: %s" % (pid, n, r))
        if p.returncode != 0 or not obs_:
            raise ToolError("Apalache could not discharge the inductive invariant of ManagedCounting.tla: %s" % p.stdout[-500:])
        extra["apalache"] = {"obligations": [n for n, _ in obs_], "discharged": len([1 for _, r in obs_ if r == "discharged"]),
                             "wall_s": round(time.time() - t0, 1), "module": "ManagedCounting.tla",
                             "scope": "any number of tasks, any max_size; no resize / close / retain"}
        # and the bounded thread-level spec refines the abstraction
        rcfg = os.path.join(workdir, "refine.cfg")
        open(rcfg, "w").write(configs.cfg_text(spec["extra"]["refine_consts"], ["RefInv"], ["Refines"]))
        shutil.copy(rcfg, os.path.join(ROOT, "spec", "MC_Refine_run.cfg"))
        r = run_tlc(os.path.join(ROOT, "spec", "MC_Refine.tla"), os.path.join(ROOT, "spec", "MC_Refine_run.cfg"), workdir)
        os.remove(os.path.join(ROOT, "spec", "MC_Refine_run.cfg"))
        if not r["ok"]:
            sys.stderr.write(r["out"][-3000:])
            raise ToolError("ManagedPool.tla does not refine ManagedCounting.tla under the counting map")
        log("[%s]   refinement ManagedPool => ManagedCounting checked by TLC: %d distinct states, %.1fs" % (pid, r["distinct"], r["tlc_s"]))
        extra["refinement"] = {"states": r["distinct"], "transitions": r["generated"], "tlc_s": r["tlc_s"], "constants": spec["extra"]["refine_consts"]}
    if "ucounting" in spec.get("extra", {}).get(tier, []):
        log("[%s] unbounded design-level argument: Apalache discharges the inductive invariant of UnmanagedCounting.tla ..." % pid)
        t0 = time.time()
        p = subprocess.run([os.path.join(ROOT, "tools", "apalache_ucounting.sh")], capture_output=True, text=True)
        obs_ = re.findall(r'OBLIGATION (.*): (discharged|FAILED)', p.stdout)
        for n, r in obs_:
            log("[%s]   %s: %s" % (pid, n, r))
        if p.returncode != 0 or not obs_:
            raise ToolError("Apalache could not discharge the inductive invariant of UnmanagedCounting.tla: %s" % p.stdout[-500:])
        extra["apalache"] = {"obligations": [n for n, _ in obs_], "discharged": len([1 for _, r in obs_ if r == "discharged"]),
                             "wall_s": round(time.time() - t0, 1), "module": "UnmanagedCounting.tla",
                             "scope": "any number of tasks, any max_size, any number of preloaded objects; no close"}
        rcfg = os.path.join(ROOT, "spec", "MCU_Refine_run.cfg")
        open(rcfg, "w").write(configs.cfg_text(spec["extra"]["refine_consts"], ["RefInv"], ["Refines"], base=configs.UBASE))
        r = run_tlc(os.path.join(ROOT, "spec", "MCU_Refine.tla"), rcfg, workdir)
        os.remove(rcfg)
        if not r["ok"]:
            sys.stderr.write(r["out"][-3000:])
            raise ToolError("UnmanagedPool.tla does not refine UnmanagedCounting.tla under the counting map")
        log("[%s]   refinement UnmanagedPool => UnmanagedCounting checked by TLC: %d distinct states, %.1fs" % (pid, r["distinct"], r["tlc_s"]))
        extra["refinement"] = {"states": r["distinct"], "transitions": r["generated"], "tlc_s": r["tlc_s"], "constants": spec["extra"]["refine_consts"]}
    # verdict
    rc = 0
    vdir = os.path.join(ROOT, "work", "violations")
    os.makedirs(vdir, exist_ok=True)
    seen = set()
    nviol = 0
    for (name, pred, run, i) in violations:
        key = (name, pred) if pred != "table" else (name, json.dumps(run))
        if key in seen:
            continue
        seen.add(key)
        info = [x for x in infos if x["config"] == name][0]
        if pred == "table":
            fn = os.path.join(vdir, "%s_%s_case%d.json" % (pid, name, nviol))
            json.dump({"kind": "case", "property": pid, "table": name, "cases": info["cases_file"], "case": run}, open(fn, "w"))
            print("VIOLATION property=%s replay=%s" % (pid, fn), flush=True)
            log("[%s]   table %s: the code disagrees with the specification on %s" % (pid, name, json.dumps(run)[:400]))
            nviol += 1
            rc = 1
            continue
        if "random" in info:
            fn = os.path.join(vdir, "%s_%s_%s_run%d.json" % (pid, name.replace(":", "_"), pred, run))
            json.dump({"kind": "random", "property": pid, "predicate": pred, "run": run, "event": i, **info["random"]}, open(fn, "w"))
            print("VIOLATION property=%s replay=%s" % (pid, fn), flush=True)
            log("[%s]   predicate %s is false at event %d of random run %d" % (pid, pred, i, run))
            nviol += 1
            rc = 1
            continue
        rp = extract_path(info["paths_file"], run)
        if rp is None:
            continue
        rp.update({"kind": "path", "pool": info.get("kind", "managed"), "property": pid, "predicate": pred, "config": name, "event": i})
        fn = os.path.join(vdir, "%s_%s_%s_run%d.json" % (pid, name, pred, run))
        json.dump(rp, open(fn, "w"))
        print("VIOLATION property=%s replay=%s" % (pid, fn), flush=True)
        log("[%s]   predicate %s is false at event %d of run %d (config %s); %d instance(s) in total"
            % (pid, pred, i, run, name, sum(1 for v in violations if v[0] == name and v[1] == pred)))
        nviol += 1
        rc = 1
    drift = sum(x.get("nonconform", 0) for x in infos)
    if rc == 0 and drift:
        first = next((x["first_divergences"][0] for x in infos if x.get("first_divergences")), {})
        print("MODEL-DRIFT property=%s runs=%d first=%s" % (pid, drift, json.dumps(first)[:300]), flush=True)
    # evidence
    samples = []
    for x in infos:
        if x.get("paths_file"):
            samples += sample_paths(x["paths_file"], 1)
        samples += x.get("case_samples", [])
    cov = {
        "states": sum(x["states"] for x in infos),
        "transitions": sum(x["transitions"] for x in infos),
        "traces_validated_against_impl": sum(x.get("conform", 0) for x in infos),
        "samples": samples[:4],
        "exhaustive": True,
        "configs": [{k: v for k, v in x.items() if k not in ("paths_file", "hcfg", "viol", "actions_taken", "case_samples", "cases_file")} for x in infos],
        "actions_covered": sorted(set(a for x in infos for a, n in x["actions_taken"].items() if n > 0)),
        "spec": sorted(set([KINDS[x.get("kind", spec.get("kind", "managed"))]["spec"] for x in infos if "spec" not in x] + [x["spec"] for x in infos if "spec" in x])),
        "spec_invariants": (configs.STRUCT if spec.get("kind", "managed") == "managed" else configs.USTRUCT) + spec["invariants"],
        "spec_action_properties": spec["actprops"],
        "monitor_predicates": spec["preds"],
        "replay_steps_on_code": sum(x.get("tour_steps", 0) for x in infos),
        "drift_runs": drift,
        "monitor_events": sum(x.get("obs_events", 0) for x in infos),
        "harness_build_s": round(build_s, 1),
    }
    cov.update(extra)
    taken = set(cov["actions_covered"])
    missing = [a for a in configs.REQUIRED_ACTIONS.get(pid, []) if a not in taken]
    cov["required_actions"] = configs.REQUIRED_ACTIONS.get(pid, [])
    if missing:
        write_evidence(pid, tier, seed, cov, time.time() - t_start, nviol, ASSUME)
        raise ToolError("vacuity guard: actions %s of the specification were never taken in any configuration of %s" % (missing, pid))
    write_evidence(pid, tier, seed, cov, time.time() - t_start, nviol, ASSUME)
    # the big tour files are scratch
    for x in infos:
        if rc == 0 and x.get("paths_file") and os.path.exists(x["paths_file"]):
            os.remove(x["paths_file"])
    log("[%s] %s tier done in %.1fs: %s" % (pid, tier, time.time() - t_start, "VIOLATED" if rc else "holds on everything explored"))
    return rc


def replay_file(fn):
    rp = json.load(open(fn))
    if rp.get("kind") == "random":
        build_harness()
        workdir = os.path.join(ROOT, "work", "replay")
        shutil.rmtree(workdir, ignore_errors=True)
        os.makedirs(workdir)
        rcf = os.path.join(workdir, "rand.json")
        json.dump(rp["rc"], open(rcf, "w"))
        obs = os.path.join(workdir, "obs.ndjson")
        rkind = rp.get("pool", "managed")
        trace = os.path.join(workdir, "trace.ndjson")
        subprocess.run([MH, "urandom" if rkind == "unmanaged" else "random", "--cfg", rcf, "--runs", "1", "--start", str(rp["run"]), "--seed", str(rp["seed"]),
                        "--steps", str(rp["steps"]), "--trace", trace, "--obs", obs], check=True)
        mon = obsmon.monitor(obs, rp["rc"]["cfg"], os.path.join(workdir, "obsmon"), spec=KINDS[rkind]["monitor"])
        evs = [json.loads(l) for l in open(obs)]
        rc = 0
        import tracecheck
        tv = tracecheck.validate(trace, rp["rc"], os.path.join(workdir, "trace"), kind=rkind)
        print("trace accepted by the specification:", tv["accepted"], "rejected at:", tv["rejected"][:1], "invariants violated on it:", tv["violated"])
        if rp.get("predicate") in tv["violated"]:
            rc = 1
        for pred, where in sorted(mon["viol"].items()):
            for run, i in where[:2]:
                e = evs[i] if i < len(evs) else {}
                print("predicate %s false at event %d: %s" % (pred, i, json.dumps({k: e.get(k) for k in
                      ("task", "act", "op", "done", "result", "max", "live", "creating", "out", "idle", "blocked", "quiescent",
                       "st_max", "st_size", "st_avail", "st_wait", "closed", "probe_got", "probe_extra", "stranded")})))
            if pred in configs.PROPS.get(rp.get("property", ""), {}).get("preds", [pred]):
                rc = 1
        if rc:
            print("VIOLATION property=%s replay=%s" % (rp.get("property", "?"), fn))
        return rc
    if rp.get("kind") == "case":
        part = None
        for pid_, sp in configs.PROPS.items():
            for tier_ in sp["configs"].values():
                for e in tier_:
                    if isinstance(e, dict) and e["name"] == rp["table"]:
                        part = e
        uses_xh = part and part.get("binary") == "xh"
        build_harness("xh" if uses_xh else "mh")
        workdir = os.path.join(ROOT, "work", "replay")
        shutil.rmtree(workdir, ignore_errors=True)
        os.makedirs(workdir)
        cf = os.path.join(workdir, "one.cases.jsonl")
        open(cf, "w").write(json.dumps(rp["case"]["case"]) + "\n")
        res = os.path.join(workdir, "result.json")
        subprocess.run([XH if uses_xh else MH, "cases", part["cases"], cf, "--result", res], check=True)
        rr = json.load(open(res))
        for m in rr["first_mismatches"]:
            print("the code disagrees with the table:", json.dumps(m.get("problems", m))[:1000])
        if rr["mismatch"]:
            print("VIOLATION property=%s replay=%s" % (rp.get("property", "?"), fn))
            return 1
        print("the case agrees with the table")
        return 0
    build_harness("xh" if rp.get("pool") in ("syncmgr", "redismgr", "pgmgr") else "mh")
    workdir = os.path.join(ROOT, "work", "replay")
    shutil.rmtree(workdir, ignore_errors=True)
    os.makedirs(workdir)
    pf = os.path.join(workdir, "one.paths.jsonl")
    with open(pf, "w") as f:
        f.write(json.dumps({"cfg": rp["cfg"], "kind": rp.get("pool", "managed")}) + "\n")
        f.write(json.dumps({"id": 0, "steps": rp["steps"]}) + "\n")
    res = os.path.join(workdir, "result.json")
    obs = os.path.join(workdir, "obs.ndjson")
    subprocess.run([XH if rp.get("pool") in ("syncmgr", "redismgr", "pgmgr") else MH, "replay", pf, "--result", res, "--obs", obs,
                    "--threads", "1", "--obs-sample", "1"], check=True)
    rr = json.load(open(res))
    print("conforms to the specification:", rr["conform"] == 1)
    for d in rr["first_divergences"]:
        print("first divergence at step %s after %s: %s" % (d["div_step"], d["div_action"], d["div_what"]))
    mon = obsmon.monitor(obs, rp["cfg"], os.path.join(workdir, "obsmon"), spec=KINDS[rp.get("pool", "managed")]["monitor"])
    evs = [json.loads(l) for l in open(obs)]
    rc = 0
    for pred, where in sorted(mon["viol"].items()):
        for run, i in where[:3]:
            e = evs[i] if i < len(evs) else {}
            print("predicate %s false at event %d: %s" % (pred, i, json.dumps({k: e.get(k) for k in
                  ("task", "act", "op", "done", "result", "max", "live", "creating", "out", "idle", "blocked", "quiescent",
                   "st_max", "st_size", "st_avail", "st_wait", "closed", "probe_got", "probe_extra", "stranded")})))
        if pred in configs.PROPS.get(rp.get("property", ""), {}).get("preds", [pred]):
            rc = 1
    if rc:
        print("VIOLATION property=%s replay=%s" % (rp.get("property", "?"), fn))
    return rc
