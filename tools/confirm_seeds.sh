#!/bin/bash
# Confirm every seeded change in a scratch worktree: demo passes without the patch, fails
# with it, and the repository's own tests of the touched crate still pass with it.
# usage: confirm_seeds.sh [seed-name ...]   (default: all without confirm.json)
WT=/tmp/wt/confirm
cd /verif/seeded
seeds="$@"; [ -z "$seeds" ] && seeds=$(ls -d */ | tr -d /)
git -C /repo worktree remove --force $WT 2>/dev/null
git -C /repo worktree add --detach $WT HEAD >/dev/null 2>&1 || exit 2
for s in $seeds; do
  [ -f $s/confirm.json ] && continue
  d=/verif/seeded/$s
  demo=$(ls $d/*.rs | head -1); name=$(basename $demo .rs)
  cmd=$(python3 -c "import json;print(json.load(open('$d/meta.json'))['demo_cmd'])" | sed 's/CARGO_TARGET_DIR=[^ ]* //')
  crate=$(python3 -c "
import json
f=json.load(open('$d/meta.json'))['files_changed'][0]
top=f.split('/')[0]
print('deadpool' if top in ('src','tests') else 'deadpool-'+top)")
  tdir=$WT/tests; [ "$crate" != deadpool ] && tdir=$WT/${crate#deadpool-}/tests
  ( cd $WT && git checkout -q -- . && git clean -fdq -e target
    mkdir -p $tdir && cp $demo $tdir/
    eval "$cmd" > /tmp/wt/without.log 2>&1; r0=$?
    git apply $d/patch.diff || { echo "{\"seed\":\"$s\",\"error\":\"patch does not apply\"}" > $d/confirm.json; exit; }
    eval "$cmd" > /tmp/wt/with.log 2>&1; r1=$?
    rm -f $tdir/$(basename $demo)
    feats=""; [ "$crate" = deadpool ] && feats="--features rt_tokio_1,serde"
    cargo test --offline -p $crate $feats > /tmp/wt/suite.log 2>&1; r2=$?
    if [ $r2 -ne 0 ] && [ "$crate" = deadpool ]; then sleep 1; cargo test --offline -p $crate $feats > /tmp/wt/suite.log 2>&1; r2=$?; fi
    fails=$(grep -E "^test .* FAILED" /tmp/wt/suite.log | head -5 | tr '\n' ';')
    echo "{\"seed\":\"$s\",\"demo_without_patch_rc\":$r0,\"demo_with_patch_rc\":$r1,\"existing_tests_with_patch_rc\":$r2,\"failed\":\"$fails\",\"cmd\":\"$(echo $cmd | sed 's/"/\\"/g')\",\"confirmed\":$([ $r0 -eq 0 ] && [ $r1 -ne 0 ] && [ $r2 -eq 0 ] && echo true || echo false)}" > $d/confirm.json
    git checkout -q -- . )
  cat $d/confirm.json
done
git -C /repo worktree remove --force $WT
