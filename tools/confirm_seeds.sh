#!/bin/bash
# Confirm every seeded change in a scratch worktree: demo passes without the patch, fails
# with it, and the repository's own tests of the touched crate still pass with it.
# usage: confirm_seeds.sh [seed-name ...]   (default: all without confirm.json)
WT=/tmp/wt/confirm
cd /verif/seeded
seeds="$@"; [ -z "$seeds" ] && seeds=$(ls -d */ | tr -d /)
git -C /repo worktree remove --force $WT 2>/dev/null
git -C /repo worktree add --detach $WT HEAD >/dev/null 2>&1 || exit 2
for s in $seeds; do
  [ -f $s/confirm.json ] && continue
  d=/verif/seeded/$s
  demo=$(ls $d/*.rs | head -1); name=$(basename $demo .rs)
  cmd=$(python3 -c "import json;print(json.load(open('$d/meta.json'))['demo_cmd'])" | sed 's/CARGO_TARGET_DIR=[^ ]* //')
  read crate tdir <<< $(python3 -c "
import json,re
m=json.load(open('$d/meta.json'))
place=m.get('demo_place','')
mm=re.search(r'((?:[\w-]+/)*tests)/[\w.-]+\.rs', place)
tdir=mm.group(1) if mm else 'tests'
top=tdir.split('/')[0]
crate='deadpool' if top=='tests' else 'deadpool-'+top
print(crate, '$WT/'+tdir)")
  ( cd $WT && git checkout -q -- . && git clean -fdq -e target
    mkdir -p $tdir && cp $demo $tdir/
    eval "$cmd" > /tmp/wt/without.log 2>&1; r0=$?
    git apply $d/patch.diff || { echo "{\"seed\":\"$s\",\"error\":\"patch does not apply\"}" > $d/confirm.json; exit; }
    eval "$cmd" > /tmp/wt/with.log 2>&1; r1=$?
    rm -f $tdir/$(basename $demo)
    feats=""; [ "$crate" = deadpool ] && feats="--features rt_tokio_1,serde"
    [ "$crate" = deadpool-postgres ] && feats="--features serde"
    [ "$crate" = deadpool-redis ] && feats="--features serde,cluster,sentinel"
    [ "$crate" = deadpool-diesel ] && feats="--features sqlite"
    cargo test --offline --no-fail-fast -p $crate $feats > /tmp/wt/suite.log 2>&1; r2=$?
    if [ $r2 -ne 0 ] && [ "$crate" = deadpool ]; then sleep 1; cargo test --offline -p $crate $feats > /tmp/wt/suite.log 2>&1; r2=$?; fi
    if [ $r2 -ne 0 ]; then
      # tests that need a server fail with or without the change: compare the sets of failing tests
      git apply -R $d/patch.diff
      cargo test --offline --no-fail-fast -p $crate $feats > /tmp/wt/suite0.log 2>&1
      git apply $d/patch.diff
      a=$(grep -E "^test .* (FAILED|ok)$" /tmp/wt/suite0.log | sort | md5sum); b=$(grep -E "^test .* (FAILED|ok)$" /tmp/wt/suite.log | sort | md5sum)
      [ "$a" = "$b" ] && r2=0
    fi
    fails=$(grep -E "^test .* FAILED" /tmp/wt/suite.log | head -5 | tr '\n' ';')
    echo "{\"seed\":\"$s\",\"demo_without_patch_rc\":$r0,\"demo_with_patch_rc\":$r1,\"existing_tests_with_patch_rc\":$r2,\"failed\":\"$fails\",\"cmd\":\"$(echo $cmd | sed 's/"/\\"/g')\",\"confirmed\":$([ $r0 -eq 0 ] && [ $r1 -ne 0 ] && [ $r2 -eq 0 ] && echo true || echo false)}" > $d/confirm.json
    git checkout -q -- . )
  cat $d/confirm.json
done
git -C /repo worktree remove --force $WT
