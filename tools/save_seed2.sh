#!/bin/sh
set -e
mkdir -p /verif/seeded/$2
cp -r /tmp/wt2/$1/SEEDED/* /verif/seeded/$2/
git -C /repo worktree remove --force /tmp/wt2/$1
