#!/usr/bin/env python3
"""TLC state graph -> transition tour for the replay harness (direction A).

  tlcgraph.py tour --spec spec/ManagedPool.tla --cfg spec/MC_x.cfg --out work/x.paths.jsonl
                   [--maxlen 120] [--workers 8]

Runs TLC with `-dump dot,actionlabels`, parses the dot file (node label = full state in
TLA+ syntax, edge label = action with its arguments), and writes init-rooted paths such
that every edge of the graph lies on at least one path.  Every step carries the
projection of the model state that the harness compares with the real pool.
"""
import argparse
import collections
import json
import os
import re
import subprocess
import sys
import time

HERE = os.path.dirname(os.path.abspath(__file__))
ROOT = os.path.dirname(HERE)


def parse_cfg_constants(cfg_path):
    """CONSTANTS section of a TLC cfg -> dict of python values."""
    txt = open(cfg_path).read()
    txt = re.sub(r'\\\*.*', '', txt)
    consts = {}
    for m in re.finditer(r'^\s*(\w+)\s*=\s*(.+?)\s*$', txt, re.M):
        k, v = m.group(1), m.group(2)
        consts[k] = tla_value(v)
    return consts


def tla_value(v):
    v = v.strip()
    j = v.replace('<<', '[').replace('>>', ']').replace('{', '[').replace('}', ']')
    j = re.sub(r'\bTRUE\b', 'true', j)
    j = re.sub(r'\bFALSE\b', 'false', j)
    try:
        return json.loads(j)
    except Exception:
        return v


def harness_cfg(c):
    return {
        "tasks": sorted(c.get("Tasks", [])),
        "init_max": c.get("InitMax", 1),
        "lifo": bool(c.get("Lifo", False)),
        "npre": c.get("NPre", 0), "npost": c.get("NPost", 0), "npc": c.get("NPc", 0),
        "async_pre": c.get("AsyncPre", []), "async_post": c.get("AsyncPost", []), "async_pc": c.get("AsyncPc", []),
        "has_runtime": bool(c.get("HasRuntime", True)),
        "unwind_drops": bool(c.get("UnwindDrops", False)),
    }


def harness_cfg_unmanaged(c):
    return {
        "tasks": sorted(c.get("Tasks", [])),
        "max_size": c.get("MaxSize", 1), "preload": c.get("Preload", 0), "nobjs": c.get("NObjs", 2),
        "has_runtime": bool(c.get("HasRuntime", True)),
    }


def project_unmanaged(st, sites):
    tasks = sorted(st["pc"].keys())
    woken = {}
    for t in tasks:
        if st["pc"][t] == "g_wait":
            woken[t] = (t in st["sem"]["h"]) or st["sem"]["c"]
        elif st["pc"][t] == "a_wait":
            woken[t] = (t in st["ssem"]["h"]) or st["ssem"]["c"]
    return {
        "permits": st["sem"]["p"], "spermits": st["ssem"]["p"], "closed": st["sem"]["c"], "sclosed": st["ssem"]["c"],
        "size": st["size"], "avail": st["avail"], "queue": st["queue"],
        "pc": {t: sites.get(st["pc"][t], st["pc"][t]) for t in tasks},
        "res": st["res"], "woken": woken,
        "held": {t: sorted(st["held"][t]) for t in tasks},
        "ext": sorted(st["ext"]), "dead": sorted(st["dead"]), "gone": st["poolGone"],
    }


def harness_cfg_sync(c):
    return {"k": c.get("K", 1), "ninteract": c.get("NInteract", 2)}


def project_sync(st, sites):
    return {"wrapper": st["wrapper"], "poisoned": st["poisoned"], "js": st["js"], "fut": st["fut"], "dtor": st["dtor"]}


def harness_cfg_syncmgr(c):
    return {"max_size": c.get("MaxSize", 1), "backend": "r2d2"}


def project_syncmgr(st, sites):
    return {"idle": st["idle"], "size": st["size"], "held": sorted(st["held"]), "rec": st["rec"]}


def harness_cfg_redismgr(c):
    return {"max_size": c.get("MaxSize", 1)}


def project_redismgr(st, sites):
    return {"idle": st["idle"], "size": st["size"], "held": sorted(st["held"]), "pn": st["pn"],
            "watching": st["watching"], "lastPings": st["lastPings"]}


def harness_cfg_pgmgr(c):
    return {"max_size": c.get("MaxSize", 1), "method": c.get("Method", "fast")}


def project_pgmgr(st, sites):
    return {"idle": st["idle"], "size": st["size"], "held": sorted(st["held"]), "taken": sorted(st["taken"]),
            "nq": st["nq"], "parses": st["parses"], "cache": [sorted(k) for k in st["cache"]]}


PROJECTORS = {"pgmgr": project_pgmgr, "redismgr": project_redismgr, "managed": None, "unmanaged": project_unmanaged, "sync": project_sync, "syncmgr": project_syncmgr}


def site_map(spec_path):
    """SiteOf(l) CASE arms of the specification -> {pc: site}."""
    txt = open(spec_path).read()
    m = re.search(r'SiteOf\(l\) ==(.*?)\[\] OTHER', txt, re.S)
    if not m:
        return {}
    return dict(re.findall(r'l = "(\w+)" -> "([\w.]+)"', m.group(1)))


_unesc = re.compile(r'\\(.)')


def unescape(s):
    return _unesc.sub(lambda m: '\n' if m.group(1) == 'n' else m.group(1), s)


def state_to_json(label):
    """'/\\ a = 1\n/\\ b = <<..>>' -> dict"""
    s = unescape(label)
    s = s.replace('<<', '\x01').replace('>>', '\x02')
    s = s.replace('[', '\x03').replace(']', '\x04')
    s = s.replace('{', '[').replace('}', ']')
    s = s.replace('\x01', '[').replace('\x02', ']').replace('\x03', '{').replace('\x04', '}')
    s = re.sub(r'(\w+) \|->', r'"\1":', s)
    s = re.sub(r'\bTRUE\b', 'true', s)
    s = re.sub(r'\bFALSE\b', 'false', s)
    s = re.sub(r'^/\\ (\w+) = ', r'"\1": ', s, flags=re.M)
    s = '{' + s.replace('\n"', ',\n"') + '}'
    return json.loads(s)


def parse_label(lbl):
    """'StartGet(\\"t1\\",\\"nb\\")' -> ('StartGet', 't1', ['nb'])"""
    lbl = unescape(lbl)
    m = re.match(r'(\w+)(?:\((.*)\))?$', lbl, re.S)
    name, args = m.group(1), m.group(2)
    if not args:
        return name, "", []
    args = re.sub(r'\bTRUE\b', 'true', re.sub(r'\bFALSE\b', 'false', args))
    a = json.loads('[' + args.replace('{', '[').replace('}', ']').replace('<<', '[').replace('>>', ']') + ']')
    if not isinstance(a[0], str):
        return name, "", a      # actions without a task argument
    return name, a[0], a[1:]


def project(st, sites):
    tasks = sorted(st["pc"].keys())
    n = st["nextObj"] - 1
    handed = set(st["handed"])
    closed = st["closed"]
    return {
        "permits": st["permits"], "closed": closed, "users": st["users"],
        "size": st["size"], "creating": st["creating"], "max": st["maxSize"],
        "idle": st["idle"], "lock": st["lock"] != "none",
        "pc": {t: sites.get(st["pc"][t], st["pc"][t]) for t in tasks},
        "cnt": st["cnt"], "susp": st["susp"], "res": st["res"],
        "woken": {t: (t in handed or closed) for t in tasks if st["pc"][t] == "g_wait"},
        "held": {t: sorted(st["held"][t]) for t in tasks},
        "alive": sorted(st["alive"]),
        "det": st["det"][:n], "rc": st["rc"][:n],
        "ncreate": sum(1 for t in tasks if st["pc"][t] == "create"),
        "gone": st["poolGone"],
        "obj": st["obj"],
    }


def run_tlc_dump(spec, cfg, dot, workers, metadir, extra=()):
    cmd = ["tlc", "-workers", str(workers), "-metadir", metadir, "-cleanup", "-noGenerateSpecTE",
           "-dump", "dot,actionlabels", dot, "-config", cfg, *extra, spec]
    t0 = time.time()
    p = subprocess.run(cmd, capture_output=True, text=True, cwd=os.path.dirname(os.path.abspath(spec)))
    out = p.stdout + p.stderr
    m = re.search(r'(\d+) states generated, (\d+) distinct states found', out)
    if p.returncode != 0 or not m:
        sys.stderr.write(out[-4000:])
        raise SystemExit("TLC failed (exit %d)" % p.returncode)
    return {"generated": int(m.group(1)), "distinct": int(m.group(2)), "tlc_s": time.time() - t0}


node_re = re.compile(r'^(-?\d+) \[label="((?:[^"\\]|\\.)*)"')
edge_re = re.compile(r'^(-?\d+) -> (-?\d+) \[label="((?:[^"\\]|\\.)*)"')


def load_dot(dot):
    nodes = {}     # id -> label (raw)
    edges = []     # (src, dst, label)
    init = None
    with open(dot) as f:
        for line in f:
            m = edge_re.match(line)
            if m:
                edges.append((m.group(1), m.group(2), m.group(3)))
                continue
            m = node_re.match(line)
            if m:
                if m.group(1) not in nodes:
                    nodes[m.group(1)] = m.group(2)
                if init is None and 'style = filled' in line:
                    init = m.group(1)
    return nodes, edges, init


def tour(nodes, edges, init, maxlen):
    """Init-rooted paths covering every edge.  Returns list of lists of edge indices."""
    out = collections.defaultdict(list)
    for i, (s, d, _) in enumerate(edges):
        out[s].append(i)
    # shortest-path tree from init (edge index leading to each node)
    parent = {init: None}
    dq = collections.deque([init])
    while dq:
        u = dq.popleft()
        for ei in out[u]:
            v = edges[ei][1]
            if v not in parent:
                parent[v] = ei
                dq.append(v)

    def path_to(v):
        p = []
        while parent[v] is not None:
            ei = parent[v]
            p.append(ei)
            v = edges[ei][0]
        p.reverse()
        return p

    covered = bytearray(len(edges))
    nunc = {u: len(es) for u, es in out.items()}  # uncovered out-edges per node

    def nearest_uncovered(u, room, maxdepth=6, maxnodes=300):
        seen = {u: None}
        frontier = [u]
        depth = 0
        while frontier and depth < min(maxdepth, room - 1) and len(seen) < maxnodes:
            depth += 1
            nxt = []
            for x in frontier:
                for ei in out.get(x, ()):
                    v = edges[ei][1]
                    if v in seen:
                        continue
                    seen[v] = ei
                    if nunc.get(v, 0) > 0:
                        hop = []
                        while seen[v] is not None:
                            hop.append(seen[v])
                            v = edges[seen[v]][0]
                        hop.reverse()
                        return hop
                    nxt.append(v)
            frontier = nxt
        return None

    ptr = collections.defaultdict(int)
    paths = []
    # process edges in order of depth of their source so prefixes get shared
    for e0 in range(len(edges)):
        if covered[e0]:
            continue
        src = edges[e0][0]
        if src not in parent:
            continue  # unreachable (should not happen)
        p = path_to(src)
        for ei in p:
            if not covered[ei]:
                covered[ei] = 1
                nunc[edges[ei][0]] -= 1
        cur = src
        # greedy walk along uncovered edges
        while len(p) < maxlen:
            es = out.get(cur)
            if not es:
                break
            if nunc.get(cur, 0) <= 0:
                # nothing new here: walk on (through covered edges) to the nearest state that still has
                # uncovered out-edges instead of starting over from the initial state
                hop = nearest_uncovered(cur, maxlen - len(p))
                if not hop:
                    break
                p.extend(hop)
                cur = edges[hop[-1]][1]
                continue
            k = ptr[cur]
            while k < len(es) and covered[es[k]]:
                k += 1
            ptr[cur] = k
            if k >= len(es):
                break
            ei = es[k]
            covered[ei] = 1
            nunc[cur] -= 1
            p.append(ei)
            cur = edges[ei][1]
        paths.append(p)
    assert all(covered[i] for i in range(len(edges)) if edges[i][0] in parent)
    # Pairs that edge coverage does not guarantee (managed pool): a step by which the holder of the slots
    # mutex lets go of it, IMMEDIATELY followed by the step of another task that was parked in front of a
    # critical section.  The replay sends that task ahead so that it really waits for the mutex (code that
    # does not wait there - try_lock instead of lock - is only exposed by this adjacency).
    lock_re = re.compile(r'lock = \\"(\w+)\\"')
    holder_cache = {}

    def holder(nid):
        h = holder_cache.get(nid)
        if h is None:
            m = lock_re.search(nodes[nid])
            h = m.group(1) if m else "none"
            holder_cache[nid] = h
        return h

    def actor(lbl):
        m = re.match(r'(\w+)\(\\"(\w+)\\"', lbl)
        return (m.group(1), m.group(2)) if m else (lbl, "")

    if any(lock_re.search(nodes[n]) for n in list(nodes)[:1]):
        npairs = 0
        for e1, (s, d, l1) in enumerate(edges):
            if s not in parent or holder(s) == "none" or holder(d) != "none":
                continue
            a1, t1 = actor(l1)
            for e2 in out.get(d, ()):
                a2, t2 = actor(edges[e2][2])
                if t2 and t2 != t1 and a2 in LOCK_STEPS:
                    p = path_to(s) + [e1, e2]
                    if len(p) <= maxlen:
                        paths.append(p)
                        npairs += 1
        sys.stderr.write("tour: %d release/lock-step pairs added\n" % npairs)
    return paths


# actions of ManagedPool.tla whose first access is the slots mutex
LOCK_STEPS = {"GPop", "CSize", "CUnres", "UDrop", "RetLock", "TkLock", "RsLock", "ClLock", "RtStatus", "RtLock"}


_G = None


def _project_chunk(arg):
    base, nids = arg
    nodes, sites, kind, unstable = _G
    proj = project if kind == "managed" else PROJECTORS[kind]
    out = []
    for k, nid in enumerate(nids):
        post = proj(state_to_json(nodes[nid]), sites)
        if kind == "sync":
            post["stable"] = nid not in unstable
        out.append(json.dumps({"n": base + k, "post": post}, separators=(',', ':')))
    return out


def write_paths(out_path, hcfg, nodes, edges, paths, sites, meta, kind="managed"):
    """Compact format: header, label table, node table (projected states), then paths as
    [label index, node index] pairs."""
    node_ix = {}
    node_lines = []
    # nodes from which a step of the environment-independent part of the system is enabled
    # (sync: the blocking pool's own steps): the harness compares only in stable states
    unstable = set(src for (src, dst, lbl) in edges if lbl.startswith("StartJob(") or lbl.startswith("Lock("))

    # node indices in order of first use; the projections are computed in parallel afterwards
    order = []

    def nix(nid):
        i = node_ix.get(nid)
        if i is None:
            i = len(order)
            node_ix[nid] = i
            order.append(nid)
        return i

    lbl_ix = {}
    labels = []

    def lix(lbl):
        i = lbl_ix.get(lbl)
        if i is None:
            i = len(labels)
            lbl_ix[lbl] = i
            n, t, x = parse_label(lbl)
            if kind not in ("managed", "unmanaged") and t != "":
                x, t = [t] + x, ""          # these specifications have no task argument
            labels.append({"a": n, "t": t, "x": x})
        return i

    nsteps = 0
    plines = []
    ecache = {}
    for pid, p in enumerate(paths):
        parts = []
        for ei in p:
            c = ecache.get(ei)
            if c is None:
                c = "[%d,%d]" % (lix(edges[ei][2]), nix(edges[ei][1]))
                ecache[ei] = c
            parts.append(c)
        nsteps += len(parts)
        plines.append('{"id":%d,"e":[%s]}' % (pid, ",".join(parts)))
    global _G
    _G = (nodes, sites, kind, unstable)
    chunks = [(k, order[k:k + 2000]) for k in range(0, len(order), 2000)]
    if len(order) > 4000:
        import multiprocessing
        with multiprocessing.get_context("fork").Pool(min(12, os.cpu_count() or 1)) as pool:
            for part in pool.imap(_project_chunk, chunks):
                node_lines.extend(part)
    else:
        for c in chunks:
            node_lines.extend(_project_chunk(c))
    with open(out_path, 'w') as f:
        f.write(json.dumps({"cfg": hcfg, "meta": meta, "format": 2, "kind": kind}) + "\n")
        f.write(json.dumps({"labels": labels}, separators=(',', ':')) + "\n")
        for l in node_lines:
            f.write(l + "\n")
        for l in plines:
            f.write(l + "\n")
    return nsteps


def main():
    ap = argparse.ArgumentParser()
    ap.add_argument("cmd", choices=["tour"])
    ap.add_argument("--spec", required=True)
    ap.add_argument("--cfg", required=True)
    ap.add_argument("--out", required=True)
    ap.add_argument("--maxlen", type=int, default=400)
    ap.add_argument("--workers", type=int, default=8)
    ap.add_argument("--keep-dot", action="store_true")
    a = ap.parse_args()
    work = os.path.dirname(os.path.abspath(a.out))
    os.makedirs(work, exist_ok=True)
    dot = os.path.abspath(a.out) + ".dot"
    meta = run_tlc_dump(os.path.abspath(a.spec), os.path.abspath(a.cfg), dot, a.workers,
                        os.path.join(work, "tlcmeta_" + os.path.basename(a.out)))
    t0 = time.time()
    nodes, edges, init = load_dot(dot)
    sites = site_map(a.spec)
    paths = tour(nodes, edges, init, a.maxlen)
    consts = parse_cfg_constants(a.cfg)
    meta.update({"nodes": len(nodes), "edges": len(edges), "paths": len(paths), "cfg_file": os.path.basename(a.cfg)})
    nsteps = write_paths(a.out, harness_cfg(consts), nodes, edges, paths, sites, meta)
    meta["steps"] = nsteps
    meta["tour_s"] = time.time() - t0
    if not a.keep_dot:
        os.remove(dot)
    print(json.dumps(meta))


if __name__ == "__main__":
    main()
