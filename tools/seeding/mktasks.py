#!/usr/bin/env python3
"""Create scratch worktrees + TASK.md files for independent bug-seeding sub-agents.
usage: mktasks.py <root dir> <Cxx> [Cxx ...]   (the agents get only the property text, see DESIGN.md 13e)"""
import glob, json, os, subprocess, sys
props = {json.loads(l)['id']: json.loads(l) for l in open('/verif/properties.jsonl')}
tried = {}
for d in glob.glob('/verif/seeded/*/meta.json'):
    m = json.load(open(d))
    tried.setdefault(m['property'], []).append(m.get('summary', '')[:300])
BASE = """# Task: seed a subtle bug that breaks one stated property

You are helping to test a verification framework for the Rust workspace `deadpool`
(an async object/connection pool: `src/managed`, `src/unmanaged`, plus manager crates
`sync/ sqlite/ r2d2/ diesel/ postgres/ redis/ ...`).  Your job is to craft a *realistic,
subtle* source change that BREAKS the property below while the workspace still compiles and
its existing tests still pass, and to demonstrate the breakage.

Work ONLY inside this git worktree: `{dir}` (a checkout of the repository).  Do not modify
`/repo`, and do not read anything under `/verif` or `/root/.vp` (the framework under test must
stay independent of what you do).  The sandbox is offline: always pass `--offline` to cargo.
Do NOT use `git stash` (shared between worktrees of other people working in parallel): to test
with/without your change use `git diff > /tmp/{id}.diff; git apply -R /tmp/{id}.diff` and `git apply /tmp/{id}.diff`.

## The property ({id}: {title})

{statement}

It is meant to hold over: {quant}

Code the property is anchored in: {files}

## Already tried by others - find something DIFFERENT in kind and location

{tried}

{hint}## Requirements

1. The bug must need something specific to manifest - a particular interleaving of
   threads/tasks, a fault/cancellation/panic at a particular point, a multi-step sequence of
   operations, an unusual input/configuration, or two cooperating sites that each look fine on
   their own.  NOT something that ordinary use would expose at once.  Prefer a clause of the
   property that the earlier attempts above did not touch.
2. It must compile, and the existing tests must still pass unedited (`cargo test --offline -p <crate>`
   for the crate(s) you touch: `deadpool` is the core crate, the others are `deadpool-sync`,
   `deadpool-sqlite`, `deadpool-r2d2`, `deadpool-diesel`, `deadpool-postgres`, `deadpool-redis`,
   `deadpool-runtime`).  There is no database/redis server here: tests and doctests that connect to a
   server fail with or without your change - ignore exactly those.  `managed::retain` and
   `unmanaged::add_timeout` use 10 ms windows and can flake on a busy machine; re-run them alone.
3. Keep the change small (roughly 1-15 lines) and plausible as a refactoring slip / optimisation
   gone wrong / mis-merge.  Do not edit existing tests.  Lines of the form
   `#[cfg(deadpool_verif)] crate::verif::point("...")` are inert verification schedule points: leave
   them in place (you may move code around them, but do not delete or rename them); do not make
   your bug depend on `cfg(deadpool_verif)`.
4. Provide a demonstration that FAILS with your change and PASSES without it - a new integration test
   file, needing no external server (scripted in-process fakes if needed).  Check both directions.
   If the bug needs an exact thread interleaving in the core crate you may build the demo with
   `RUSTFLAGS="--cfg deadpool_verif"` and use `deadpool::verif::set_hook` (see `src/verif.rs`).
5. Deliver, in `{dir}/SEEDED/`: `patch.diff` (`git diff` of the source change ONLY, applicable with
   `git apply` at the repository root), the demo file(s), and `meta.json`:
   `{{"property": "{id}", "summary": "...", "needs": "...", "files_changed": [...], "demo_place": "path of the demo
   file relative to the repository root, e.g. tests/x.rs or redis/tests/x.rs", "demo_cmd": "command that runs it from the
   repository root", "checked": "what you ran and saw with and without the change"}}`.
6. Be efficient: use the default target dir inside the worktree, build only what you need.

Finish with a short report (what the bug is, why existing tests miss it, how the demo shows it).
"""
root = sys.argv[1]
os.makedirs(root, exist_ok=True)
for pid in sys.argv[2:]:
    d = os.path.join(root, pid)
    if os.path.exists(d):
        continue
    subprocess.run(['git', '-C', '/repo', 'worktree', 'add', '--detach', d, 'HEAD'], check=True, capture_output=True)
    p = props[pid]
    t = '\n'.join('* ' + x for x in tried.get(pid, [])) or '(nothing yet)'
    open(d + '/TASK.md', 'w').write(BASE.format(dir=d, id=pid, title=p['title'], statement=p['statement'],
                                                quant=p['quantifier']['text'], files=', '.join(p['anchors'].get('files', [])), tried=t,
                                                hint=(os.environ.get('SEED_HINT', '') + "\n\n") if os.environ.get('SEED_HINT') else ''))
print("ok")
