---------------------------- MODULE RedisManager ----------------------------
(***************************************************************************)
(* The standalone deadpool-redis pool against a scripted server (C17).      *)
(* Task level: one caller at a time; the pool's own bookkeeping is what     *)
(* ManagedPool.tla verifies.  Manager::recycle is determined by the server: *)
(*   the client pipelines  UNWATCH ; PING <n>  with n = a counter of the    *)
(*   pool that is consumed by every recycle attempt, and accepts the        *)
(*   connection only if the reply echoes exactly n.                         *)
(* The server answers each recycle in one of the modes below; the caller    *)
(* may leave WATCH state behind.                                            *)
(***************************************************************************)
EXTENDS Integers, Sequences, FiniteSets, TLC

CONSTANTS MaxSize, NConns, Budget, Modes   \* Modes \subseteq {"right", "stale", "wrong", "error", "disconnect", "stall"}
                                           \* ("stall": no reply at all - the pool's recycle timeout ends the wait)

Conns == 1..NConns

VARIABLES
  idle, size, held, nextC,
  pn,            \* next PING number of the pool
  watching,      \* per connection: WATCH state on the server
  seen,          \* per connection: sequence of <<command, argument>> the server received for recycling since it was last returned
  dead, taken, budget,
  lastPings      \* PING values the last get() sent, in order (observable at the server)

vars == <<idle, size, held, nextC, pn, watching, seen, dead, taken, budget, lastPings>>

Init ==
  /\ idle = <<>> /\ size = 0 /\ held = {} /\ nextC = 1 /\ pn = 0
  /\ watching = [c \in Conns |-> FALSE] /\ seen = [c \in Conns |-> <<>>]
  /\ dead = {} /\ taken = {} /\ budget = Budget /\ lastPings = <<>>

Spend == budget > 0 /\ budget' = budget - 1

\* get() tries the idle connections in queue order; plan[i] is the server's answer to the i-th
\* recycle of this call.  Every attempt consumes a PING number.
RECURSIVE Scan(_, _, _, _, _, _)
Scan(q, sz, dd, n, i, plan) ==
  IF q = <<>>
  THEN IF sz < MaxSize /\ nextC <= NConns
       THEN [kind |-> "create", q |-> q, sz |-> sz + 1, dd |-> dd, c |-> nextC, n |-> n, tried |-> <<>>]
       ELSE IF sz < MaxSize THEN [kind |-> "bound", q |-> q, sz |-> sz, dd |-> dd, c |-> 0, n |-> n, tried |-> <<>>]
       ELSE [kind |-> "timeout", q |-> q, sz |-> sz, dd |-> dd, c |-> 0, n |-> n, tried |-> <<>>]
  ELSE LET c == Head(q) IN
       IF plan[i] = "right"
       THEN [kind |-> "reuse", q |-> Tail(q), sz |-> sz, dd |-> dd, c |-> c, n |-> n + 1, tried |-> <<c>>]
       ELSE LET r == Scan(Tail(q), sz - 1, dd \cup {c}, n + 1, i + 1, plan) IN
            [r EXCEPT !.tried = <<c>> \o r.tried]

Get(plan) ==
  /\ Spend
  /\ LET r == Scan(idle, size, dead, pn, 1, plan) IN
     /\ r.kind # "bound"       \* (the model's supply of connection ids is exhausted: not explored)
     /\ idle' = r.q /\ size' = r.sz /\ dead' = r.dd /\ pn' = r.n
     /\ lastPings' = [k \in 1..Len(r.tried) |-> pn + k - 1]
     /\ seen' = [c \in Conns |-> IF \E k \in 1..Len(r.tried) : r.tried[k] = c
                                 THEN <<"UNWATCH", "PING">> ELSE seen[c]]
     \* UNWATCH reached the server on every connection that was tried
     /\ watching' = [c \in Conns |-> IF \E k \in 1..Len(r.tried) : r.tried[k] = c THEN FALSE ELSE watching[c]]
     /\ CASE r.kind = "create" -> held' = held \cup {r.c} /\ nextC' = nextC + 1
          [] r.kind = "reuse" -> held' = held \cup {r.c} /\ UNCHANGED nextC
          [] OTHER -> UNCHANGED <<held, nextC>>
  /\ UNCHANGED taken

\* the caller leaves WATCH state on a connection it holds
Watch(c) ==
  /\ c \in held /\ ~watching[c] /\ Spend
  /\ watching' = [watching EXCEPT ![c] = TRUE]
  /\ UNCHANGED <<idle, size, held, nextC, pn, seen, dead, taken, lastPings>>

Return(c) ==
  /\ c \in held
  /\ held' = held \ {c} /\ idle' = Append(idle, c) /\ seen' = [seen EXCEPT ![c] = <<>>]
  /\ UNCHANGED <<size, nextC, pn, watching, dead, taken, budget, lastPings>>

\* Connection::take == Object::take: the connection leaves the pool, its slot is free again
Take(c) ==
  /\ c \in held /\ Spend
  /\ held' = held \ {c} /\ size' = size - 1 /\ taken' = taken \cup {c}
  /\ UNCHANGED <<idle, nextC, pn, watching, seen, dead, lastPings>>

Plans == [1..MaxSize -> Modes]
Next ==
  \/ \E plan \in Plans : Get(plan)
  \/ \E c \in Conns : Watch(c) \/ Return(c) \/ Take(c)
Spec == Init /\ [][Next]_vars

----------------------------------------------------------------------------
SeqSet(s) == {s[i] : i \in 1..Len(s)}
\* C17: a reused connection was sent UNWATCH and a fresh PING since it was last returned and
\* carries no WATCH state; a connection that did not echo correctly is gone
Act_C17 == [][\A c \in Conns : (c \in held' /\ c \notin held /\ c < nextC) =>
                 (seen'[c] = <<"UNWATCH", "PING">> /\ ~watching'[c])]_vars
Act_FreshPing == [][pn' >= pn /\ (pn' > pn => \A k \in 1..Len(lastPings') : lastPings'[k] >= pn)]_vars
Inv_DeadStayDead == \A c \in dead : c \notin held /\ c \notin SeqSet(idle)
TypeOK == pn \in Nat /\ size \in 0..MaxSize
Inv_Capacity == size = Len(idle) + Cardinality(held) /\ size <= MaxSize
=============================================================================
