---------------------------- MODULE UnmanagedObs ----------------------------
(***************************************************************************)
(* Observation-only monitor for deadpool::unmanaged::Pool: evaluates the    *)
(* predicates of C05 / C12 (and the unmanaged half of C10) on what the real *)
(* code was observed to do (log written by harness/mh/src/ureplay.rs).      *)
(***************************************************************************)
EXTENDS Integers, Sequences, FiniteSets, TLC, Json, IOUtils

CONSTANTS HasRuntime

Rec == ndJsonDeserialize(IOEnv.OBS)
VARIABLE l
vars == <<l>>

Min(a, b) == IF a < b THEN a ELSE b

\* --- C05 -------------------------------------------------------------------
\* at rest every object is in exactly one place: outside, held, queued or dropped
U05a(e) == /\ e.dup = 0
           /\ (e.atrest /\ e.nq >= 0 /\ ~e.poolgone) => e.total = e.next + e.nheld + e.ndead + e.nq
\* nothing is dropped while the pool is open
U05b(e) == e.ndead - e.ncdrop > 0 => (e.closed \/ e.poolgone)
\* never more than max_size objects in the pool (queued or checked out)
U05c(e) == (e.nq >= 0 /\ ~e.poolgone) => e.nq + e.nheld <= e.max
\* try_add with nobody else active: refused with Timeout exactly when the pool is full
U05d(e) == (e.done /\ e.op = "add" /\ e.mode = "try" /\ e.solo /\ ~e.closed /\ ~e.sclosed) =>
              (e.result = "timeout" <=> e.b_inpool = e.max) /\ (e.result = "ok" <=> e.b_inpool < e.max)
\* add() waits only while the pool is full, get() only while it is empty
U05e(e) == (e.quiescent /\ e.nq >= 0 /\ ~e.poolgone) =>
              /\ (e.blocked_add > 0 => e.nq + e.nheld = e.max)
              /\ (e.blocked_get > 0 => e.nq = 0)
\* status() at rest
U05f(e) == (e.quiescent /\ e.nq >= 0 /\ ~e.poolgone) =>
              /\ e.st_max = e.max /\ e.st_size = e.nq + e.nheld
              /\ e.st_avail = e.nq /\ e.st_wait = e.blocked_get
\* the probe: everything queued can be taken out, and the pool fills up to max_size exactly
U05g(e) == (e.k = "probe" /\ e.p_got >= 0 /\ ~e.closed) =>
              /\ e.p_got = e.p_q
              /\ e.p_added = Min(e.p_free, e.p_ext)
              /\ (e.p_ext > e.p_free => e.p_refused = "timeout")
              /\ e.p_first = "timeout"

\* --- C12 -------------------------------------------------------------------
U12a(e) == e.upanics = 0
U12b(e) == e.done => e.result \in {"none", "ok", "timeout", "closed", "no_runtime", "cancelled"}
\* (a timed get on a pool without runtime is refused as NoRuntimeSpecified whatever the pool's state)
U12c(e) == (e.done /\ e.late /\ e.op \in {"get", "remove", "add"}) => e.result \in {"closed", "cancelled", "no_runtime"}
U12d(e) == (e.closeret /\ ~e.poolgone) =>
              /\ e.closed /\ e.sclosed
              /\ ((e.quiescent /\ e.nq >= 0) => (e.nq = 0 /\ e.blocked_get = 0 /\ e.blocked_add = 0))
U12e(e) == (e.k = "probe" /\ e.p_got >= 0 /\ e.closed) =>
              /\ e.p_got = 0 /\ e.p_first = "closed" /\ e.p_added = 0
              /\ (e.p_ext > 0 => e.p_refused = "closed")
\* --- C10 (unmanaged half) ------------------------------------------------------
U10a(e) == (e.done /\ e.result = "no_runtime") => (~HasRuntime /\ e.mode = "timed")
U10b(e) == (e.done /\ e.op \in {"get", "remove"} /\ e.mode = "timed" /\ ~HasRuntime) => e.result = "no_runtime"
U10c(e) == (e.done /\ e.op \in {"get", "remove"} /\ e.result = "timeout") => e.mode \in {"try", "timed"}

C06c(a, b) == (a.closed => b.closed) /\ (a.sclosed => b.sclosed)

Names == {"U05a", "U05b", "U05c", "U05d", "U05e", "U05f", "U05g", "U12a", "U12b", "U12c", "U12d", "U12e", "U10a", "U10b", "U10c"}
StateViol(e) ==
  {n \in Names :
     ~ CASE n = "U05a" -> U05a(e) [] n = "U05b" -> U05b(e) [] n = "U05c" -> U05c(e) [] n = "U05d" -> U05d(e)
         [] n = "U05e" -> U05e(e) [] n = "U05f" -> U05f(e) [] n = "U05g" -> U05g(e)
         [] n = "U12a" -> U12a(e) [] n = "U12b" -> U12b(e) [] n = "U12c" -> U12c(e) [] n = "U12d" -> U12d(e)
         [] n = "U12e" -> U12e(e) [] n = "U10a" -> U10a(e) [] n = "U10b" -> U10b(e) [] n = "U10c" -> U10c(e)}
ActViol(a, b) == IF a.run = b.run /\ ~b.poolgone /\ ~C06c(a, b) THEN {"U12f"} ELSE {}
Viol(i) == StateViol(Rec[i]) \cup (IF i > 1 THEN ActViol(Rec[i - 1], Rec[i]) ELSE {})

Init == l = 0
Next ==
  /\ l < Len(Rec)
  /\ l' = l + 1
  /\ LET v == Viol(l + 1) IN v # {} => PrintT(<<"VIOL", Rec[l + 1].run, Rec[l + 1].i, v>>)
Spec == Init /\ [][Next]_vars
Consumed == TLCGet("stats").diameter - 1 = Len(Rec)
=============================================================================
