----------------------------- MODULE SyncMgrObs -----------------------------
(***************************************************************************)
(* Observation-only monitor for C15 (pools built on SyncWrapper): judged on *)
(* what the real deadpool-sqlite / -r2d2 / -diesel pools did.  The harness   *)
(* knows, independently of the pool, on which connections it made a closure  *)
(* panic or which it marked broken / invalid.                               *)
(***************************************************************************)
EXTENDS Integers, Sequences, FiniteSets, TLC, Json, IOUtils

Rec == ndJsonDeserialize(IOEnv.OBS)
VARIABLE l
vars == <<l>>

\* a damaged connection is never handed out by a later get()
M15a(e) == e.bad_handout = 0
\* the pool keeps serving with its full capacity: once everything is settled and returned,
\* max_size healthy connections can be obtained
M15b(e) == e.k = "probe" => (e.probe_got = e.max /\ e.size = e.max)
M15c(e) == e.upanics = 0 /\ e.size <= e.max

Names == {"M15a", "M15b", "M15c"}
StateViol(e) == {n \in Names : ~ CASE n = "M15a" -> M15a(e) [] n = "M15b" -> M15b(e) [] n = "M15c" -> M15c(e)}
Init == l = 0
Next ==
  /\ l < Len(Rec)
  /\ l' = l + 1
  /\ LET v == StateViol(Rec[l + 1]) IN v # {} => PrintT(<<"VIOL", Rec[l + 1].run, Rec[l + 1].i, v>>)
Spec == Init /\ [][Next]_vars
Consumed == TLCGet("stats").diameter - 1 = Len(Rec)
=============================================================================
