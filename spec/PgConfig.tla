------------------------------ MODULE PgConfig ------------------------------
(***************************************************************************)
(* deadpool_postgres::Config::get_pg_config() / create_pool() as a          *)
(* decision table (C18).  Expected(cfg) is a transcription of the RULES     *)
(* the property states - not of the code:                                   *)
(*   - an invalid URL is InvalidUrl; otherwise the URL is the base;          *)
(*   - scalar options that are set override the URL; an empty user or       *)
(*     dbname counts as unset; a missing user falls back to $USER;          *)
(*   - no dbname -> DbnameMissing, an empty one -> DbnameEmpty;              *)
(*   - hosts / hostaddrs / ports = the URL's, then the singular field,      *)
(*     then the plural field; default socket directories only when no host  *)
(*     at all is given;                                                     *)
(*   - the pool section reaches the pool unchanged and timeouts without a   *)
(*     runtime are a build error.                                           *)
(* There is no behaviour: each initial state is one input; TLC enumerates   *)
(* them (per slice) and the harness calls the real functions.  The parse    *)
(* results of the URLs are constants of this table; the harness re-checks   *)
(* them against tokio_postgres before use.                                  *)
(***************************************************************************)
EXTENDS Integers, Sequences, TLC, Json

CONSTANT Slice    \* "identity" | "lists" | "scalars" | "scalars_full" | "pool"

U == "unset"
None == "none"

\* [url string, valid, user, password, dbname, options, app, hosts, ports, hostaddrs, ctimeout(secs or -1), sslmode, tsa, cb, lbh]
Url(s, v, u, pw, db, o, a, hs, ps, has, ct, ssl, tsa, cb, lbh) ==
  [s |-> s, valid |-> v, user |-> u, password |-> pw, dbname |-> db, options |-> o, app |-> a,
   hosts |-> hs, ports |-> ps, hostaddrs |-> has, ctimeout |-> ct, sslmode |-> ssl, tsa |-> tsa, cb |-> cb, lbh |-> lbh]

UrlTable == <<
  Url("postgresql://u:p@h1:5432/db", TRUE, "u", "p", "db", U, U, <<"h1">>, <<5432>>, <<>>, -1, U, U, U, U),
  Url("postgresql://h1/db", TRUE, U, U, "db", U, U, <<"h1">>, <<5432>>, <<>>, -1, U, U, U, U),
  Url("postgresql:///db", TRUE, U, U, "db", U, U, <<>>, <<>>, <<>>, -1, U, U, U, U),
  Url("host=h1 user=u dbname=db", TRUE, "u", U, "db", U, U, <<"h1">>, <<>>, <<>>, -1, U, U, U, U),
  Url("postgresql://u@h1:5433,h2:5434/db?connect_timeout=10&sslmode=require&application_name=app&options=-c%20x%3D1",
      TRUE, "u", U, "db", "-c x=1", "app", <<"h1", "h2">>, <<5433, 5434>>, <<>>, 10, "require", U, U, U),
  Url("not a url ::", FALSE, U, U, U, U, U, <<>>, <<>>, <<>>, -1, U, U, U, U),
  Url("postgresql://h1", TRUE, U, U, U, U, U, <<"h1">>, <<5432>>, <<>>, -1, U, U, U, U),
  Url("user=u", TRUE, "u", U, U, U, U, <<>>, <<>>, <<>>, -1, U, U, U, U),
  Url("postgresql://%C3%BC@h1/d%C3%B6", TRUE, "ü", U, "dö", U, U, <<"h1">>, <<5432>>, <<>>, -1, U, U, U, U),
  Url("dbname='' host=h1", TRUE, U, U, "", U, U, <<"h1">>, <<>>, <<>>, -1, U, U, U, U),
  Url("postgresql://h1/db?target_session_attrs=read-write&channel_binding=require&load_balance_hosts=random",
      TRUE, U, U, "db", U, U, <<"h1">>, <<5432>>, <<>>, -1, U, "read-write", "require", "random"),
  Url("", TRUE, U, U, U, U, U, <<>>, <<>>, <<>>, -1, U, U, U, U),
  Url("hostaddr=127.0.0.2 port=5555 dbname=db user=''", TRUE, "", U, "db", U, U, <<>>, <<5555>>, <<"127.0.0.2">>, -1, U, U, U, U),
  Url("postgresql://h1/db?sslmode=bogus", FALSE, U, U, U, U, U, <<>>, <<>>, <<>>, -1, U, U, U, U)
>>
NUrls == Len(UrlTable)

VARIABLES url,       \* 0 = no URL, else index into UrlTable
  user, password, dbname, options, app, envuser,
  host, hosts, hostaddr, hostaddrs, port, ports,
  ctimeout, keepalives, kidle, sslmode, tsa, cb, lbh,
  poolmax, pwait, pcreate, qmode, runtime
vars == <<url, user, password, dbname, options, app, envuser, host, hosts, hostaddr, hostaddrs, port, ports,
          ctimeout, keepalives, kidle, sslmode, tsa, cb, lbh, poolmax, pwait, pcreate, qmode, runtime>>

Str == {U, "", "alice", "ü"}

Unset ==
  /\ user = U /\ password = U /\ dbname = U /\ options = U /\ app = U /\ envuser = U
  /\ host = U /\ hosts = <<U>> /\ hostaddr = U /\ hostaddrs = <<U>> /\ port = -1 /\ ports = <<-1>>
  /\ ctimeout = -1 /\ keepalives = U /\ kidle = -1 /\ sslmode = U /\ tsa = U /\ cb = U /\ lbh = U
  /\ poolmax = -1 /\ pwait = U /\ pcreate = U /\ qmode = U /\ runtime = FALSE

Init ==
  /\ url \in 0..NUrls
  /\ CASE Slice = "identity" ->
            /\ user \in Str /\ dbname \in {U, "", "db2"} /\ envuser \in {U, "envuser"} /\ password \in {U, "", "pw"}
            /\ options = U /\ app = U /\ host = U /\ hosts = <<U>> /\ hostaddr = U /\ hostaddrs = <<U>> /\ port = -1 /\ ports = <<-1>>
            /\ ctimeout = -1 /\ keepalives = U /\ kidle = -1 /\ sslmode = U /\ tsa = U /\ cb = U /\ lbh = U
            /\ poolmax = -1 /\ pwait = U /\ pcreate = U /\ qmode = U /\ runtime = FALSE
       [] Slice = "lists" ->
            /\ host \in {U, "hx"} /\ hosts \in {<<U>>, <<>>, <<"hy">>, <<"hy", "hz">>}
            /\ hostaddr \in {U, "10.0.0.1"} /\ hostaddrs \in {<<U>>, <<"10.0.0.2", "::1">>}
            /\ port \in {-1, 1111} /\ ports \in {<<-1>>, <<>>, <<2222, 3333>>}
            /\ dbname \in {U, "db2"}
            /\ user = U /\ password = U /\ options = U /\ app = U /\ envuser = U
            /\ ctimeout = -1 /\ keepalives = U /\ kidle = -1 /\ sslmode = U /\ tsa = U /\ cb = U /\ lbh = U
            /\ poolmax = -1 /\ pwait = U /\ pcreate = U /\ qmode = U /\ runtime = FALSE
       [] Slice \in {"scalars", "scalars_full"} ->
            /\ dbname = "db2"
            /\ IF Slice = "scalars_full"
               THEN /\ options \in {U, "", "-c y=2"} /\ app \in {U, "myapp"}
                    /\ ctimeout \in {-1, 0, 7} /\ keepalives \in {U, "true", "false"} /\ kidle \in {-1, 30}
                    /\ sslmode \in {U, "disable", "prefer", "require"} /\ tsa \in {U, "any", "read-write"}
                    /\ cb \in {U, "disable", "prefer", "require"} /\ lbh \in {U, "disable", "random"}
               ELSE /\ options \in {U, "-c y=2"} /\ app \in {U, "myapp"}
                    /\ ctimeout \in {-1, 7} /\ keepalives \in {U, "false"} /\ kidle \in {-1, 30}
                    /\ sslmode \in {U, "disable", "require"} /\ tsa \in {U, "read-write"}
                    /\ cb \in {U, "require"} /\ lbh \in {U, "random"}
            /\ user = U /\ password = U /\ envuser = U /\ host = U /\ hosts = <<U>> /\ hostaddr = U /\ hostaddrs = <<U>>
            /\ port = -1 /\ ports = <<-1>> /\ poolmax = -1 /\ pwait = U /\ pcreate = U /\ qmode = U /\ runtime = FALSE
            /\ url \in {0, 1, 5, 11}
       [] Slice = "pool" ->
            /\ dbname \in {U, "db2"} /\ poolmax \in {-1, 0, 3} /\ pwait \in {U, "none", "zero", "finite"} /\ runtime \in BOOLEAN
            /\ pcreate \in {U, "finite"} /\ qmode \in {U, "Fifo", "Lifo"}
            /\ user = U /\ password = U /\ options = U /\ app = U /\ envuser = U
            /\ host = U /\ hosts = <<U>> /\ hostaddr = U /\ hostaddrs = <<U>> /\ port = -1 /\ ports = <<-1>>
            /\ ctimeout = -1 /\ keepalives = U /\ kidle = -1 /\ sslmode = U /\ tsa = U /\ cb = U /\ lbh = U
            /\ url \in {0, 1, 6}
Next == UNCHANGED vars
Spec == Init /\ [][Next]_vars

----------------------------------------------------------------------------
Base == IF url = 0 THEN Url("", TRUE, U, U, U, U, U, <<>>, <<>>, <<>>, -1, U, U, U, U) ELSE UrlTable[url]

Override(field, base) == IF field # U THEN field ELSE base
NonEmpty(field, base) == IF field # U /\ field # "" THEN field ELSE base
ListOf(single, plural) == (IF single = U THEN <<>> ELSE <<single>>) \o (IF plural = <<U>> THEN <<>> ELSE plural)

EUser0 == NonEmpty(user, Base.user)
EUser == IF EUser0 = U \/ EUser0 = "" THEN (IF envuser # U THEN envuser ELSE EUser0) ELSE EUser0
EDb == NonEmpty(dbname, Base.dbname)
EHosts == Base.hosts \o ListOf(host, hosts)
EPorts == Base.ports \o (IF port = -1 THEN <<>> ELSE <<port>>) \o (IF ports = <<-1>> THEN <<>> ELSE ports)
EHostaddrs == Base.hostaddrs \o ListOf(hostaddr, hostaddrs)

ExpectKind ==
  IF ~Base.valid THEN "InvalidUrl"
  ELSE IF EDb = U THEN "DbnameMissing"
  ELSE IF EDb = "" THEN "DbnameEmpty"
  ELSE "ok"

Expect ==
  [kind |-> ExpectKind,
   user |-> EUser, password |-> Override(password, Base.password), dbname |-> EDb,
   options |-> Override(options, Base.options), app |-> Override(app, Base.app),
   hosts |-> EHosts, default_hosts |-> (EHosts = <<>>), ports |-> EPorts, hostaddrs |-> EHostaddrs,
   ctimeout |-> IF ctimeout # -1 THEN ctimeout ELSE Base.ctimeout,
   keepalives |-> keepalives, kidle |-> kidle,
   sslmode |-> Override(sslmode, Base.sslmode), tsa |-> Override(tsa, Base.tsa),
   cb |-> Override(cb, Base.cb), lbh |-> Override(lbh, Base.lbh),
   \* create_pool(): configuration errors first, then timeouts without a runtime
   create |-> IF ExpectKind # "ok" THEN "config_error"
              ELSE IF (pwait \in {"zero", "finite"} \/ pcreate # U) /\ ~runtime THEN "no_runtime" ELSE "ok",
   poolmax |-> poolmax, qmode |-> IF qmode = U THEN "Fifo" ELSE qmode]

Case == [slice |-> Slice, url |-> url, urlstr |-> Base.s, parsed |-> Base,
         user |-> user, password |-> password, dbname |-> dbname, options |-> options, app |-> app, envuser |-> envuser,
         host |-> host, hosts |-> hosts, hosts_set |-> hosts # <<U>>,
         hostaddr |-> hostaddr, hostaddrs |-> hostaddrs, hostaddrs_set |-> hostaddrs # <<U>>,
         port |-> port, ports |-> ports, ports_set |-> ports # <<-1>>,
         ctimeout |-> ctimeout, keepalives |-> keepalives, kidle |-> kidle, sslmode |-> sslmode, tsa |-> tsa, cb |-> cb, lbh |-> lbh,
         poolmax |-> poolmax, pwait |-> pwait, pcreate |-> pcreate, qmode |-> qmode, runtime |-> runtime, expect |-> Expect]
Emit == PrintT(<<"CASE", ToJson(Case)>>)
Total == ExpectKind \in {"ok", "InvalidUrl", "DbnameMissing", "DbnameEmpty"}
=============================================================================
