SPECIFICATION Spec
CONSTANTS
  Tasks = {"t1", "t2"}
  MaxSize = 2
  Preload = 1
  NObjs = 3
  Budget = 4
  GetModes = {"try", "bl", "timed"}
  HasRuntime = TRUE
  AllowClose = TRUE
  AllowTake = TRUE
  AllowRemove = TRUE
  AllowAdd = TRUE
  AllowCancel = TRUE
  AllowDropPool = TRUE
CHECK_DEADLOCK FALSE
INVARIANTS TypeOK Inv_C05_places Inv_C05_nodrop Inv_C05_max Inv_C05_full Inv_C05_getters Inv_C05_status Inv_C12_nounderflow Inv_C12_final Inv_C12_late
PROPERTIES Act_C05_tryadd Act_C12_closed
