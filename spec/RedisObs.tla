------------------------------ MODULE RedisObs ------------------------------
(***************************************************************************)
(* Observation-only monitor for C17: what the scripted server saw of the    *)
(* real deadpool-redis pool.                                                *)
(***************************************************************************)
EXTENDS Integers, Sequences, FiniteSets, TLC, Json, IOUtils

Rec == ndJsonDeserialize(IOEnv.OBS)
VARIABLE l
vars == <<l>>

\* every reused connection that was handed out had been sent UNWATCH, then a PING, answered
\* with exactly that PING's value, and carries no WATCH state
R17a(e) == e.bad_reuse = 0
\* no PING value is ever used twice on the pool
R17b(e) == e.dup_pings = 0
\* the pool keeps its capacity (discarded connections are replaced, taken ones free their slot)
R17c(e) == e.size <= e.max /\ (e.k = "probe" => (e.probe_got = e.max /\ e.size = e.max))

\* Connection::take removes the connection from the pool for good: the pool shrinks by one, the
\* connection is never recycled or handed out again
R17d(e) == e.taken_reissued = 0 /\ e.take_size_bad = 0 /\ e.taken_recycled = 0

Names == {"R17a", "R17b", "R17c", "R17d"}
StateViol(e) == {n \in Names : ~ CASE n = "R17a" -> R17a(e) [] n = "R17b" -> R17b(e) [] n = "R17c" -> R17c(e) [] n = "R17d" -> R17d(e)}
Init == l = 0
Next ==
  /\ l < Len(Rec)
  /\ l' = l + 1
  /\ LET v == StateViol(Rec[l + 1]) IN v # {} => PrintT(<<"VIOL", Rec[l + 1].run, Rec[l + 1].i, v>>)
Spec == Init /\ [][Next]_vars
Consumed == TLCGet("stats").diameter - 1 = Len(Rec)
=============================================================================
