----------------------------- MODULE MC_Refine -----------------------------
(***************************************************************************)
(* ManagedPool.tla (thread level, no resize / close / retain) refines the   *)
(* counter abstraction ManagedCounting.tla under the counting map below:    *)
(* TLC checks that every step of the detailed spec is a step of the         *)
(* abstraction or leaves all counters unchanged.  Together with the         *)
(* inductive proof of ManagedCounting!IndInv (Apalache) this lifts the      *)
(* design-level core of C01 / C02 from "the bounded configurations" to any  *)
(* number of tasks and any max_size.                                        *)
(***************************************************************************)
EXTENDS ManagedPool

N(S) == Cardinality({t \in Tasks : pc[t] \in S})
C == INSTANCE ManagedCounting WITH
  Max <- InitMax,
  permits <- permits, waiting <- Len(waitq), handed <- Cardinality(handed),
  pre <- N({"g_pop"}), recycling <- N({"pre", "recycle", "post"}), udrop <- N({"u_drop"}),
  creating <- N({"create"}), csize <- N({"c_size"}), cunres <- N({"c_unres"}), postc <- N({"pcreate"}),
  done <- Cardinality({t \in Tasks : pc[t] = "g_exit" /\ res[t] = "ok"}),
  exiting <- Cardinality({t \in Tasks : pc[t] = "g_exit" /\ res[t] # "ok"}),
  out <- Cardinality(UNION {held[t] : t \in Tasks}) + N({"ret_users", "ret_lock", "tk_users", "tk_lock"}),
  returning <- N({"ret_add"}), tkadd <- N({"tk_add"}),
  idle <- Len(idle), size <- size, cr <- creating

cvars == <<permits, Len(waitq), Cardinality(handed), N({"g_pop"}), N({"pre", "recycle", "post"}), N({"u_drop"}),
           N({"create"}), N({"c_size"}), N({"c_unres"}), N({"pcreate"}),
           Cardinality({t \in Tasks : pc[t] = "g_exit" /\ res[t] = "ok"}),
           Cardinality({t \in Tasks : pc[t] = "g_exit" /\ res[t] # "ok"}),
           Cardinality(UNION {held[t] : t \in Tasks}) + N({"ret_users", "ret_lock", "tk_users", "tk_lock"}),
           N({"ret_add"}), N({"tk_add"}), Len(idle), size, creating>>
Refines == C!Init /\ [][C!Next]_cvars
RefInv == C!IndInv
=============================================================================
