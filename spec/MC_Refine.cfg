SPECIFICATION Spec
CONSTANTS
  Tasks = {"t1", "t2"}
  InitMax = 2
  MaxObjs = 3
  Budget = 4
  Lifo = FALSE
  NPre = 0
  NPost = 1
  NPc = 1
  AsyncPre = {}
  AsyncPost = {1}
  AsyncPc = {}
  GetModes = {"nb", "bl", "timed"}
  CreateTO = {"none", "finite"}
  RecycleTO = {"none", "finite"}
  HasRuntime = TRUE
  ResizeTargets = {}
  AllowClose = FALSE
  AllowRetain = FALSE
  AllowTake = TRUE
  AllowDropPool = FALSE
  AllowFail = TRUE
  AllowSuspend = TRUE
  AllowCancel = TRUE
  AllowPanic = TRUE
  ThreadLevel = TRUE
  HoldAndWait = TRUE
  UnwindDrops = FALSE
CHECK_DEADLOCK FALSE
INVARIANTS RefInv
PROPERTIES Refines
