---------------------------- MODULE ManagedTrace ----------------------------
(***************************************************************************)
(* Direction B: executions recorded from the REAL pool (seeded random       *)
(* schedules, more tasks and far more operations than TLC can exhaust)      *)
(* validated against ManagedPool.tla.  Every logged event names the spec    *)
(* action it corresponds to (derived by the harness from the schedule       *)
(* point the task was parked at and the command it was given) with its      *)
(* arguments, and carries the real pool's state after the step; the trace   *)
(* is accepted iff each event is a step of the specification that ends in   *)
(* exactly that state.  All property invariants of ManagedPool are          *)
(* invariants of this spec too, so they are evaluated on every state of     *)
(* the observed behaviour.  Several runs are concatenated ("Reset" events). *)
(***************************************************************************)
EXTENDS ManagedPool, Json, IOUtils

Rec == ndJsonDeserialize(IOEnv.TRACE)

VARIABLES l,
  skipping    \* the current run was rejected: its remaining events are consumed without being checked
tvars == <<vars, l, skipping>>

ToSet(s) == {s[i] : i \in 1..Len(s)}

\* the logged state of the real pool after event e agrees with the primed variables
Matches(e) ==
  \* (once the last pool handle is gone there is no pool state to look at)
  /\ (~e.gone => (permits' = e.permits /\ closed' = e.closed /\ users' = e.users))
  /\ ((e.slots /\ ~e.gone) => (size' = e.size /\ creating' = e.creating /\ maxSize' = e.max /\ idle' = e.idle))
  /\ (~e.gone => ((lock' # NoTask) = ~e.slots))
  /\ poolGone' = e.gone
  /\ \A t \in Tasks : SiteOf(pc'[t]) = e.at[t] /\ susp'[t] = e.susp[t]
  /\ \A t \in Tasks : held'[t] = ToSet(e.held[t])
  /\ (e.done => res'[e.task] = e.result)
  /\ alive' = ToSet(e.alive)

Apply(e) ==
  LET t == e.task
      a == e.act
      x == e.x IN
  CASE a = "StartGet" -> StartGet(t, x[1], x[2], x[3])
    [] a = "GUsers" -> GUsers(t) [] a = "GAcq" -> GAcq(t) [] a = "GWaitPoll" -> GWaitPoll(t)
    [] a = "GWaitCancel" -> GWaitCancel(t) [] a = "GWaitExpire" -> GWaitExpire(t) [] a = "GPop" -> GPop(t)
    [] a = "Call" -> Call(t, x[1]) [] a = "Resume" -> Resume(t, x[1]) [] a = "Cancel" -> Cancel(t) [] a = "Expire" -> Expire(t)
    [] a = "CSize" -> CSize(t) [] a = "CUnres" -> CUnres(t) [] a = "UDrop" -> UDrop(t) [] a = "GExit" -> GExit(t)
    [] a = "XUsers" -> XUsers(t)
    [] a = "StartReturn" -> StartReturn(t, x[1]) [] a = "RetUsers" -> RetUsers(t) [] a = "RetLock" -> RetLock(t) [] a = "RetAdd" -> RetAdd(t)
    [] a = "StartTake" -> StartTake(t, x[1]) [] a = "TkUsers" -> TkUsers(t) [] a = "TkLock" -> TkLock(t) [] a = "TkAdd" -> TkAdd(t)
    [] a = "StartResize" -> StartResize(t, x[1]) [] a = "RsLock" -> RsLock(t) [] a = "RsForget" -> RsForget(t) [] a = "RsGrow" -> RsGrow(t)
    [] a = "StartClose" -> StartClose(t) [] a = "ClLock" -> ClLock(t)
    [] a = "StartRetain" -> StartRetain(t) [] a = "RtStatus" -> RtStatus(t) [] a = "RtLock" -> RtLock(t) [] a = "RtPred" -> RtPred(t, x[1])
    [] a = "Tick" -> Tick(t)
    [] a = "DropPool" -> DropPool
    [] OTHER -> FALSE

ResetAll ==
  /\ permits' = InitMax /\ closed' = FALSE /\ waitq' = <<>> /\ handed' = {}
  /\ idle' = <<>> /\ size' = 0 /\ creating' = 0 /\ maxSize' = InitMax /\ lock' = NoTask
  /\ users' = 0
  /\ pc' = [t \in Tasks |-> "idle"] /\ obj' = [t \in Tasks |-> NoObj]
  /\ mode' = [t \in Tasks |-> "bl"] /\ cto' = [t \in Tasks |-> "none"] /\ rto' = [t \in Tasks |-> "none"]
  /\ arg' = [t \in Tasks |-> 0] /\ cnt' = [t \in Tasks |-> 0]
  /\ susp' = [t \in Tasks |-> FALSE] /\ res' = [t \in Tasks |-> "none"] /\ chain' = [t \in Tasks |-> <<>>]
  /\ rc' = [o \in Objs |-> 0] /\ rec' = [o \in Objs |-> FALSE]
  /\ held' = [t \in Tasks |-> {}] /\ nextObj' = 1 /\ alive' = {} /\ det' = [o \in Objs |-> 0]
  /\ taken' = {} /\ ho' = [o \in Objs |-> 0] /\ orphan' = {} /\ late' = [t \in Tasks |-> FALSE]
  /\ budget' = Budget /\ poolGone' = FALSE /\ closeRet' = FALSE /\ running' = NoTask /\ panicked' = FALSE
  /\ ticked' = [t \in Tasks |-> FALSE]

TraceInit == Init /\ l = 1 /\ skipping = FALSE
\* ("blind": the step let go of the slots mutex another task was waiting for; that task went through at once, so
\*  the state in between could not be looked at - the event is checked as an action only)
EvStep(e) == Apply(e) /\ (e.blind \/ Matches(e))
TraceNext ==
  /\ l <= Len(Rec)
  /\ l' = l + 1
  /\ LET e == Rec[l] IN
     IF e.act = "Reset" THEN ResetAll /\ skipping' = FALSE
     ELSE IF skipping THEN UNCHANGED <<vars, skipping>>
     ELSE \/ EvStep(e) /\ skipping' = FALSE
          \/ /\ ~ENABLED EvStep(e)
             /\ PrintT(<<"REJECTED", e.run, e.seq, e.task, e.act>>)
             /\ UNCHANGED vars /\ skipping' = TRUE

TraceSpec == TraceInit /\ [][TraceNext]_tvars

\* the action properties of ManagedPool on the observed behaviour; the step that starts the next run
\* (all variables back to their initial values) is not a step of the pool
NotReset == l <= Len(Rec) /\ Rec[l].act # "Reset"
TAct_C06c == [][NotReset => Step_C06c]_tvars
TAct_C07a == [][NotReset => Step_C07a]_tvars
TAct_C07b == [][NotReset => Step_C07b]_tvars
TAct_C08b == [][NotReset => Step_C08b]_tvars

\* every event was consumed (rejected runs are reported by the REJECTED lines)
TraceAccepted == TLCGet("stats").diameter - 1 = Len(Rec)
=============================================================================
