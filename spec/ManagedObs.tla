----------------------------- MODULE ManagedObs -----------------------------
(***************************************************************************)
(* Observation-only monitor for the managed pool.                          *)
(*                                                                         *)
(* The behaviour is the log written by the harness (harness/mh/src/obs.rs): *)
(* one record per executed step with what can be seen of the REAL pool     *)
(* from outside - the harness's own object registry, the manager / hook /  *)
(* predicate call log, results of operations, the public status() - never  *)
(* anything taken from the model.  This spec constrains nothing about how  *)
(* the pool gets from one observation to the next; it only evaluates the   *)
(* property predicates of DESIGN.md section 7 on what the code did.  It is  *)
(* the oracle used when an execution does not conform to ManagedPool.tla   *)
(* (and, as a cross-check, on samples of conforming executions).           *)
(***************************************************************************)
EXTENDS Integers, Sequences, FiniteSets, TLC, Json, IOUtils

CONSTANTS NPre, NPost, NPc, HasRuntime

Rec == ndJsonDeserialize(IOEnv.OBS)

VARIABLE l
vars == <<l>>

SeqSet(s) == {s[i] : i \in 1..Len(s)}

CreateChain == <<"create">> \o [i \in 1..NPc |-> "pcreate" \o ToString(i)]
RecycleChain == [i \in 1..NPre |-> "pre" \o ToString(i)] \o <<"recycle">> \o [i \in 1..NPost |-> "post" \o ToString(i)]

----------------------------------------------------------------------------
(* state predicates on one record e                                        *)

C01(e) == ~e.resized => (e.live + e.creating <= e.max /\ e.out <= e.max)

C02a(e) == e.upanics = 0
C02b(e) == (e.quiescent /\ e.blocked > 0 /\ ~e.poolgone /\ e.idle >= 0)
              => (e.idle = 0 /\ e.live + e.creating >= e.max)
C02c(e) == (e.k = "probe" /\ ~e.poolgone) =>
              /\ IF e.closed THEN e.probe_got = 0 /\ e.probe_extra = "closed"
                 ELSE e.probe_got = e.max /\ e.probe_extra = "timeout_wait"
              /\ (e.stranded > 0 => (e.max = 0 /\ ~e.closed))

\* abandoned get(), nobody else ran in between: status as before minus what was discarded
C03a(e) == e.solo =>
              LET d == e.b_live - e.live IN
              /\ d >= 0 /\ e.creating = 0
              /\ (e.stknown => /\ e.st_max = e.b_max /\ e.st_size = e.b_size - d
                               /\ e.st_avail = e.b_avail - d /\ e.st_wait = e.b_wait)

GetDone(e) == e.done /\ e.op = "get"
C04a(e) == (GetDone(e) /\ e.result = "ok") => (e.chain \in {CreateChain, RecycleChain} /\ ~e.rrejected)
C04c(e) == GetDone(e) =>
              /\ CASE e.cause = "create_err" -> e.result = "backend"
                   [] e.cause = "create_timeout" -> e.result = "timeout_create"
                   [] e.cause = "pcreate_err" -> e.result = "post_create_hook"
                   [] e.cause = "wait_expired" -> e.result = "timeout_wait"
                   [] e.cause = "cancel" -> e.result = "cancelled"
                   [] e.cause = "panic" -> e.result = "panic"
                   [] OTHER -> e.result \in ({"ok", "closed", "no_runtime"}
                                               \cup (IF e.mode = "nb" THEN {"timeout_wait"} ELSE {}))
              /\ (e.result = "no_runtime" => ~HasRuntime)
              /\ (e.result = "closed" => e.closed)

\* a per-call recycle timeout on a pool without runtime is refused as such, whatever the wait mode
C04d(e) == (GetDone(e) /\ ~HasRuntime /\ e.rto # "none") => e.result \in {"no_runtime", "cancelled", "panic"}

C06a(e) == (GetDone(e) /\ e.late) => e.result \in {"closed", "cancelled", "no_runtime"}
C06b(e) == (e.closeret /\ e.quiescent /\ ~e.poolgone /\ e.idle >= 0)
              => (e.idle = 0 /\ e.closed /\ (e.stknown => e.st_max = 0))

C07a(e) == (e.done /\ e.op = "resize" /\ ~e.closed /\ ~e.resizing /\ e.stknown)
              => (e.st_max = e.arg /\ e.idle <= e.arg)
C07c(e) == (e.quiescent /\ e.out = 0 /\ ~e.resizing /\ e.idle >= 0 /\ ~e.poolgone) => e.idle <= e.max

C08a(e) == e.expectpop # 0 => e.callobj = e.expectpop
C08b(e) == e.refqlen >= 0 => e.refqlen = 0
C08c(e) == e.orphancalls = 0 /\ (e.k \in {"begin", "end"} => e.bgcalls = 0)

C09a(e) == (e.done /\ e.op = "retain" /\ e.result # "unexpected_panic") =>
              \* the predicate (possibly stateful) is asked exactly once per idle object, in queue order
              /\ e.predcalls = e.idlebefore
              /\ e.removed = SelectSeq(e.idlebefore, LAMBDA x : x \notin SeqSet(e.keep))
              /\ e.retained = Len(e.idlebefore) - Len(e.removed)
C09b(e) == e.k = "end" =>
              \A i \in 1..Len(e.objs) :
                 LET o == e.objs[i] IN
                 o.det = IF (o.destroyed \/ o.handed) /\ ~o.orphan THEN 1 ELSE 0
\* an object whose recycling step failed, timed out or was abandoned is gone for good
C04b(e) == e.k = "end" => \A i \in 1..Len(e.objs) : e.objs[i].rejected =>
              (e.objs[i].destroyed /\ ~e.objs[i].idle /\ ~e.objs[i].out /\ (~e.objs[i].orphan => e.objs[i].det = 1))

C11a(e) == (e.quiescent /\ e.nosusp /\ e.stknown /\ ~e.poolgone) =>
              /\ e.st_max = e.max /\ e.st_size = e.idle + e.out
              /\ e.st_avail = e.idle /\ e.st_wait = e.blocked
C11b(e) == e.stknown =>
              /\ e.st_size <= e.exist + e.creating /\ e.st_avail <= e.st_size
              /\ e.st_wait <= e.ingets
              /\ e.st_size < 1073741824 /\ e.st_wait < 1073741824 /\ e.st_avail < 1073741824
              /\ (e.st_size > e.st_max => e.resized)

\* compound clauses: capacity / bookkeeping after abandonment, resize, retain / take
C03b(e) == e.abandoned => (C02b(e) /\ C02c(e) /\ C09b(e) /\ C04b(e))
C07d(e) == e.resized => (C02b(e) /\ C02c(e))
C09c(e) == e.usedrt => (C02c(e) /\ C11a(e))

\* --- C10 --------------------------------------------------------------------
\* a zero wait timeout never waits
C10b(e) == e.mode = "nb" => ~e.pendwait
\* NoRuntimeSpecified: nothing was created, destroyed or detached by that call
\* (idle objects whose recycle check failed in this very call are rejected as usual)
C10c(e) == (GetDone(e) /\ e.result = "no_runtime" /\ e.solo) => (e.live = e.b_live - e.nrej /\ e.creating = 0 /\ C03a(e))
\* after timeouts the slot is free again and the rejected objects are gone
C10d(e) == e.timedout => (C02b(e) /\ C02c(e) /\ C04b(e))

C13a(e) == (GetDone(e) /\ e.result = "ok") => (e.rrc = e.rho - 1 /\ (e.rrec <=> e.rho > 1))
C13b(e) == e.callobj > 0 =>
              IF e.callho = 0 THEN e.callrc = 0 ELSE e.callrc = e.callho - 1
C13c(e) == e.mfaults = 0

----------------------------------------------------------------------------
(* action predicates on two consecutive records of the same run            *)

SameRun(a, b) == a.run = b.run
C06c(a, b) == (a.closed /\ ~b.poolgone) => b.closed
C07b(a, b) == (b.live + b.creating > a.live + a.creating) => b.live + b.creating <= b.max

StateViol(e) ==
  {n \in {"C01", "C02a", "C02b", "C02c", "C03a", "C04a", "C04b", "C04c", "C04d", "C06a", "C06b", "C07a", "C07c",
          "C08a", "C08b", "C08c", "C09a", "C09b", "C11a", "C11b", "C13a", "C13b", "C13c", "C03b", "C07d", "C09c", "C10b", "C10c", "C10d"} :
     ~ CASE n = "C01" -> C01(e) [] n = "C02a" -> C02a(e) [] n = "C02b" -> C02b(e) [] n = "C02c" -> C02c(e)
         [] n = "C03a" -> C03a(e) [] n = "C04a" -> C04a(e) [] n = "C04b" -> C04b(e) [] n = "C04c" -> C04c(e) [] n = "C04d" -> C04d(e)
         [] n = "C06a" -> C06a(e) [] n = "C06b" -> C06b(e) [] n = "C07a" -> C07a(e) [] n = "C07c" -> C07c(e)
         [] n = "C08a" -> C08a(e) [] n = "C08b" -> C08b(e) [] n = "C08c" -> C08c(e)
         [] n = "C09a" -> C09a(e) [] n = "C09b" -> C09b(e)
         [] n = "C11a" -> C11a(e) [] n = "C11b" -> C11b(e)
         [] n = "C13a" -> C13a(e) [] n = "C13b" -> C13b(e) [] n = "C13c" -> C13c(e)
         [] n = "C03b" -> C03b(e) [] n = "C07d" -> C07d(e) [] n = "C09c" -> C09c(e)
         [] n = "C10b" -> C10b(e) [] n = "C10c" -> C10c(e) [] n = "C10d" -> C10d(e)}

ActViol(a, b) ==
  IF SameRun(a, b)
  THEN (IF C06c(a, b) THEN {} ELSE {"C06c"}) \cup (IF C07b(a, b) THEN {} ELSE {"C07b"})
  ELSE {}

Viol(i) == StateViol(Rec[i]) \cup (IF i > 1 THEN ActViol(Rec[i - 1], Rec[i]) ELSE {})

Init == l = 0
Next ==
  /\ l < Len(Rec)
  /\ l' = l + 1
  /\ LET v == Viol(l + 1) IN
       v # {} => PrintT(<<"VIOL", Rec[l + 1].run, Rec[l + 1].i, v>>)

Spec == Init /\ [][Next]_vars

\* every record was consumed
Consumed == TLCGet("stats").diameter - 1 = Len(Rec)
=============================================================================
