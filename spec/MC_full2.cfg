SPECIFICATION Spec
CONSTANTS
  Tasks = {"t1", "t2"}
  InitMax = 2
  MaxObjs = 3
  Budget = 5
  Lifo = FALSE
  NPre = 1
  NPost = 1
  NPc = 1
  AsyncPre = {}
  AsyncPost = {1}
  AsyncPc = {}
  GetModes = {"nb", "bl", "timed"}
  CreateTO = "finite"
  RecycleTO = "finite"
  HasRuntime = TRUE
  ResizeTargets = {0, 1, 3}
  AllowClose = TRUE
  AllowRetain = TRUE
  AllowTake = TRUE
  AllowDropPool = TRUE
  AllowFail = TRUE
  AllowSuspend = TRUE
  AllowCancel = TRUE
  AllowPanic = TRUE
  ThreadLevel = TRUE
  HoldAndWait = TRUE
  UnwindDrops = FALSE
CHECK_DEADLOCK FALSE
INVARIANTS TypeOK UsersExact SizeExact CreatingExact PermitsCover NoWaiterWithFreePermit Inv_C02a Inv_C02b Inv_C02c Inv_C09b Inv_C03 Inv_C04a Inv_C06a Inv_C06b Inv_C07c Inv_C11a Inv_C11b Inv_C13
PROPERTIES Act_C06c Act_C07a Act_C07b Act_C08b
