---------------------------- MODULE ManagedPool ----------------------------
(***************************************************************************)
(* deadpool::managed::Pool at the grain of the implementation's critical   *)
(* sections.  One action per segment of code between two schedule points   *)
(* (`crate::verif::point`, cfg(deadpool_verif)) or environment gates (every *)
(* call of Manager::create / recycle / a hook parks in the harness).  Each *)
(* segment performs at most one access to shared pool state: one slots     *)
(* lock region, one atomic RMW on `users`, or one tokio semaphore call.    *)
(*                                                                         *)
(* The spec models the tree as it is after the `fix:` commits (admission   *)
(* under the pop lock with a `creating` reservation, close() atomic under  *)
(* the slots lock, detach on shrink/close, NoRuntimeSpecified for per-call *)
(* recycle timeouts).  `pc[t]` names the schedule point task t is parked   *)
(* at; SiteOf maps it to the site string reported by the code.             *)
(***************************************************************************)
EXTENDS Integers, Sequences, FiniteSets, TLC

CONSTANTS
  Tasks,          \* set of task names (strings)
  InitMax,        \* max_size given to the builder
  MaxObjs,        \* bound: objects ever created
  Budget,         \* bound: operations ever started (get/take/resize/close/retain)
  Lifo,           \* QueueMode::Lifo ?
  NPre, NPost, NPc,             \* number of pre_recycle / post_recycle / post_create hooks
  AsyncPre, AsyncPost, AsyncPc, \* indices of the hooks registered with Hook::async_fn
  GetModes,       \* subset of {"nb","bl","timed"}: wait = Some(0) / None / Some(finite)
  CreateTO, RecycleTO,          \* sets of per-call create / recycle timeouts: subsets of {"none", "zero", "finite"}
  HasRuntime,     \* a Runtime was given to the builder
  ResizeTargets,  \* arguments resize() may be called with ({} = no resize)
  AllowClose, AllowRetain, AllowTake, AllowDropPool,
  AllowFail,      \* manager / hooks may return errors
  AllowSuspend,   \* async calls may return Pending
  AllowCancel,    \* a suspended get() may be dropped
  AllowPanic,     \* manager / hooks may panic
  ThreadLevel,    \* TRUE: every segment is a scheduling unit; FALSE: a task runs until it suspends
  HoldAndWait,    \* TRUE: a task may start a waiting get() while it holds objects itself (FALSE for liveness)
  UnwindDrops     \* TRUE: a caller whose get() panics drops the objects it holds while the panic unwinds
                  \* (what a panicking tokio task does): they are returned to the pool one after the other

NoTask == "none"
NoObj  == 0
Objs   == 1..MaxObjs

VARIABLES
  \* tokio::sync::Semaphore (batch_semaphore): free permits, closed flag, FIFO wait
  \* queue, waiters that have been assigned their permit but have not been polled yet
  permits, closed, waitq, handed,
  \* Mutex<Slots>: idle queue (front = head), size, creating, max_size; lock = holder
  \* of the mutex *across* schedule points (only resize() keeps it over a point)
  idle, size, creating, maxSize, lock,
  users,                                  \* AtomicUsize
  \* per task: location, object in hand, wait mode, argument, counter (hook index /
  \* permits left to retire or add), current call returned Pending, result of the
  \* current / last operation, steps passed by the object in hand
  pc, obj, mode, cto, rto, arg, cnt, susp, res, chain,   \* cto / rto: this call's create / recycle timeout
  \* per object: Metrics::recycle_count, Metrics::recycled.is_some()
  rc, rec,
  \* ground truth / environment (never read by an implementation action)
  held,        \* objects each task holds (get() returned them)
  nextObj,     \* id of the next object Manager::create will return
  alive,       \* created and neither destroyed nor handed over
  det,         \* number of Manager::detach calls per object
  taken,       \* handed over to a caller for good (Object::take, RetainResult)
  ho,          \* number of times each object has been handed out by get()
  orphan,      \* destroyed after the pool itself was gone (no manager to detach from)
  late,        \* task's get() started after close() returned, or was still waiting for a slot then
  ticked,      \* the clock of task t was advanced during its current get() (at most once per call explored)
  budget, poolGone, closeRet, running, panicked

sem   == <<permits, closed, waitq, handed>>
slots == <<idle, size, creating, maxSize, lock>>
tv    == <<pc, obj, mode, cto, rto, arg, cnt, susp, res, chain>>
ov    == <<rc, rec>>
gv    == <<held, nextObj, alive, det, taken, ho, orphan, late, budget, poolGone, closeRet, panicked>>
vars  == <<sem, slots, users, tv, ov, gv, running, ticked>>

Min(a, b) == IF a < b THEN a ELSE b
SeqSet(s) == {s[i] : i \in 1..Len(s)}
Without(s, x) == SelectSeq(s, LAMBDA y : y # x)

Init ==
  /\ permits = InitMax /\ closed = FALSE /\ waitq = <<>> /\ handed = {}
  /\ idle = <<>> /\ size = 0 /\ creating = 0 /\ maxSize = InitMax /\ lock = NoTask
  /\ users = 0
  /\ pc = [t \in Tasks |-> "idle"] /\ obj = [t \in Tasks |-> NoObj]
  /\ mode = [t \in Tasks |-> "bl"] /\ cto = [t \in Tasks |-> "none"] /\ rto = [t \in Tasks |-> "none"] /\ arg = [t \in Tasks |-> 0] /\ cnt = [t \in Tasks |-> 0]
  /\ susp = [t \in Tasks |-> FALSE] /\ res = [t \in Tasks |-> "none"]
  /\ chain = [t \in Tasks |-> <<>>]
  /\ rc = [o \in Objs |-> 0] /\ rec = [o \in Objs |-> FALSE]
  /\ held = [t \in Tasks |-> {}] /\ nextObj = 1 /\ alive = {} /\ det = [o \in Objs |-> 0]
  /\ taken = {} /\ ho = [o \in Objs |-> 0] /\ orphan = {} /\ late = [t \in Tasks |-> FALSE]
  /\ budget = Budget /\ poolGone = FALSE /\ closeRet = FALSE /\ running = NoTask
  /\ panicked = FALSE /\ ticked = [t \in Tasks |-> FALSE]

----------------------------------------------------------------------------
(* tokio semaphore: each public call is one atomic step                    *)

\* add_permits(n) / n permits dropped: waiters at the head of the queue are served
\* first (each needs one permit), the rest goes to the counter.
SemRelease(n) ==
  LET k == Min(n, Len(waitq)) IN
  /\ handed' = handed \cup {waitq[i] : i \in 1..k}
  /\ waitq' = SubSeq(waitq, k + 1, Len(waitq))
  /\ permits' = permits + (n - k)
  /\ UNCHANGED closed

\* Acquire::drop of task t's waiter (cancel, timeout, or re-poll after close)
SemDropWaiter(t) ==
  IF t \in handed
  THEN \* the permit it had been assigned is released again
       LET h == handed \ {t} IN
       IF waitq # <<>>
       THEN /\ handed' = h \cup {Head(waitq)} /\ waitq' = Tail(waitq) /\ UNCHANGED <<permits, closed>>
       ELSE /\ handed' = h /\ permits' = permits + 1 /\ UNCHANGED <<waitq, closed>>
  ELSE /\ waitq' = Without(waitq, t) /\ UNCHANGED <<permits, closed, handed>>

----------------------------------------------------------------------------
(* helpers                                                                 *)

Goto(t, l) == pc' = [pc EXCEPT ![t] = l]

\* Scheduling: at thread level every segment is a unit; at task level a task keeps the
\* processor until it yields (operation finished, waiting for a permit, call pending).
\* Last conjunct of every task action (pc' and susp' are determined by then).
Yielded(t) == pc'[t] = "idle" \/ pc'[t] = "g_wait" \/ susp'[t]
Sched(t) ==
  /\ ticked' = IF pc[t] = "idle" /\ pc'[t] = "g_users" THEN [ticked EXCEPT ![t] = FALSE] ELSE ticked
  /\ running \in {NoTask, t}
  /\ running' = IF ThreadLevel \/ Yielded(t) THEN NoTask ELSE t
SetRes(t, r) == res' = [res EXCEPT ![t] = r]

\* End of a step that finishes an operation.  Normally the task is idle afterwards; while a panic unwinds
\* the caller's frame (res = "panic" survives the returns: they do not set it) the next object it holds is
\* dropped, i.e. returned to the pool (lowest id first - the order is the caller's business).
Unwinding(t) == UnwindDrops /\ res[t] = "panic" /\ held[t] # {} /\ ~poolGone
NextDrop(t) == CHOOSE o \in held[t] : \A p \in held[t] : o <= p
Finish(t) ==
  IF Unwinding(t)
  THEN /\ held' = [held EXCEPT ![t] = @ \ {NextDrop(t)}] /\ obj' = [obj EXCEPT ![t] = NextDrop(t)] /\ Goto(t, "ret_users")
  ELSE /\ Goto(t, "idle") /\ obj' = [obj EXCEPT ![t] = NoObj] /\ UNCHANGED held

Spend == budget > 0 /\ budget' = budget - 1

\* detach + destroy a set of objects the pool lets go of
LetGo(S) ==
  /\ det' = [o \in Objs |-> IF o \in S THEN det[o] + 1 ELSE det[o]]
  /\ alive' = alive \ S

\* stage reached after the call at (stage, i) succeeded; "fin" = chain complete
NextStage(stage, i) ==
  CASE stage = "pre"     -> IF i < NPre THEN <<"pre", i + 1>> ELSE <<"recycle", 0>>
    [] stage = "recycle" -> IF NPost > 0 THEN <<"post", 1>> ELSE <<"fin", 0>>
    [] stage = "post"    -> IF i < NPost THEN <<"post", i + 1>> ELSE <<"fin", 0>>
    [] stage = "pcreate" -> IF i < NPc THEN <<"pcreate", i + 1>> ELSE <<"fin", 0>>

FirstRecycleStage == IF NPre > 0 THEN <<"pre", 1>> ELSE <<"recycle", 0>>
FirstPcStage == IF NPc > 0 THEN <<"pcreate", 1>> ELSE <<"fin", 0>>

IsAsync(stage, i) ==
  CASE stage = "pre" -> i \in AsyncPre
    [] stage = "post" -> i \in AsyncPost
    [] stage = "pcreate" -> i \in AsyncPc
    [] OTHER -> TRUE      \* Manager::create / recycle are futures

CallPcs == {"pre", "recycle", "post", "create", "pcreate"}
Tag(stage, i) == IF stage \in {"recycle", "create"} THEN stage ELSE stage \o ToString(i)

----------------------------------------------------------------------------
(* get() / timeout_get()                                                   *)

StartGet(t, m, c, r) ==
  /\ pc[t] = "idle" /\ ~poolGone /\ m \in GetModes /\ c \in CreateTO /\ r \in RecycleTO /\ Spend
  /\ (HoldAndWait \/ m = "nb" \/ held[t] = {})
  /\ Goto(t, "g_users") /\ mode' = [mode EXCEPT ![t] = m] /\ SetRes(t, "none")
  /\ cto' = [cto EXCEPT ![t] = c] /\ rto' = [rto EXCEPT ![t] = r]
  /\ late' = [late EXCEPT ![t] = closeRet]
  /\ UNCHANGED <<sem, slots, users, obj, arg, cnt, susp, chain, ov, held, nextObj, alive, det, taken, ho, orphan, poolGone, closeRet, panicked>>
  /\ Sched(t)

\* users.fetch_add; then the per-call recycle timeout is checked against the runtime
GUsers(t) ==
  /\ pc[t] = "g_users" /\ users' = users + 1
  /\ IF rto[t] # "none" /\ ~HasRuntime
     THEN Goto(t, "x_users") /\ SetRes(t, "no_runtime")
     ELSE Goto(t, "g_acq") /\ UNCHANGED res
  /\ UNCHANGED <<sem, slots, obj, mode, cto, rto, arg, cnt, susp, chain, ov, gv>>
  /\ Sched(t)

\* try_acquire() (non-blocking) or first poll of acquire()
GAcq(t) ==
  /\ pc[t] = "g_acq"
  /\ IF mode[t] = "timed" /\ ~HasRuntime
     THEN Goto(t, "x_users") /\ SetRes(t, "no_runtime") /\ UNCHANGED sem
     ELSE IF closed
     THEN Goto(t, "x_users") /\ SetRes(t, "closed") /\ UNCHANGED sem
     ELSE IF permits > 0
     THEN permits' = permits - 1 /\ Goto(t, "g_pop") /\ UNCHANGED <<res, closed, waitq, handed>>
     ELSE IF mode[t] = "nb"
     THEN Goto(t, "x_users") /\ SetRes(t, "timeout_wait") /\ UNCHANGED sem
     ELSE waitq' = Append(waitq, t) /\ Goto(t, "g_wait") /\ UNCHANGED <<res, permits, closed, handed>>
  /\ UNCHANGED <<slots, users, obj, mode, cto, rto, arg, cnt, susp, chain, ov, gv>>
  /\ Sched(t)

\* the waiter was woken (permit assigned, or semaphore closed) and is polled again
GWaitPoll(t) ==
  /\ pc[t] = "g_wait" /\ (t \in handed \/ closed)
  /\ IF closed
     THEN /\ SemDropWaiter(t) /\ Goto(t, "x_users") /\ SetRes(t, "closed")
     ELSE /\ handed' = handed \ {t} /\ Goto(t, "g_pop") /\ UNCHANGED <<res, permits, closed, waitq>>
  /\ UNCHANGED <<slots, users, obj, mode, cto, rto, arg, cnt, susp, chain, ov, gv>>
  /\ Sched(t)

\* the get() future is dropped while waiting for a permit
GWaitCancel(t) ==
  /\ AllowCancel /\ pc[t] = "g_wait"
  /\ SemDropWaiter(t) /\ Goto(t, "x_users") /\ SetRes(t, "cancelled")
  /\ UNCHANGED <<slots, users, obj, mode, cto, rto, arg, cnt, susp, chain, ov, gv>>
  /\ Sched(t)

\* the wait deadline passes and the future is polled: tokio's timeout polls the
\* acquire first, so this is only a timeout if no permit has been assigned
GWaitExpire(t) ==
  /\ pc[t] = "g_wait" /\ mode[t] = "timed" /\ t \notin handed /\ ~closed
  /\ SemDropWaiter(t) /\ Goto(t, "x_users") /\ SetRes(t, "timeout_wait")
  /\ UNCHANGED <<slots, users, obj, mode, cto, rto, arg, cnt, susp, chain, ov, gv>>
  /\ Sched(t)

\* lock; pop an idle object, or reserve a slot for a new one, or find the permit stale
GPop(t) ==
  /\ pc[t] = "g_pop" /\ lock = NoTask
  /\ IF idle # <<>>
     THEN LET o == IF Lifo THEN idle[Len(idle)] ELSE Head(idle) IN
          /\ idle' = IF Lifo THEN SubSeq(idle, 1, Len(idle) - 1) ELSE Tail(idle)
          /\ obj' = [obj EXCEPT ![t] = o]
          /\ Goto(t, FirstRecycleStage[1]) /\ cnt' = [cnt EXCEPT ![t] = FirstRecycleStage[2]]
          /\ UNCHANGED <<creating, res>>
     ELSE IF size + creating < maxSize
     THEN /\ creating' = creating + 1
          /\ IF cto[t] # "none" /\ ~HasRuntime
             THEN Goto(t, "c_unres") /\ SetRes(t, "no_runtime")   \* create() is never polled
             ELSE Goto(t, "create") /\ UNCHANGED res
          /\ UNCHANGED <<idle, obj, cnt>>
     ELSE \* stale permit: forget it and ask again
          /\ Goto(t, "g_acq") /\ UNCHANGED <<idle, obj, cnt, creating, res>>
  /\ chain' = [chain EXCEPT ![t] = <<>>]
  /\ UNCHANGED <<sem, size, maxSize, lock, users, mode, cto, rto, arg, susp, ov, gv>>
  /\ Sched(t)

\* --- manager / hook calls ------------------------------------------------
\* The object in hand passed the call at pc[t]: move to the next stage, or complete.
Advance(t) ==
  LET stage == pc[t]
      n == NextStage(stage, cnt[t])
      o == obj[t] IN
  /\ chain' = [chain EXCEPT ![t] = Append(@, Tag(stage, cnt[t]))]
  /\ IF n[1] = "fin"
     THEN /\ Goto(t, "g_exit") /\ SetRes(t, "ok") /\ UNCHANGED cnt
          /\ IF stage \in {"recycle", "post"}
             THEN rc' = [rc EXCEPT ![o] = @ + 1] /\ rec' = [rec EXCEPT ![o] = TRUE]
             ELSE UNCHANGED ov
     ELSE /\ Goto(t, n[1]) /\ cnt' = [cnt EXCEPT ![t] = n[2]] /\ UNCHANGED <<res, ov>>

\* The call at pc[t] failed with `how`.
Fail(t, how) ==
  /\ UNCHANGED <<cnt, chain, ov>>
  /\ CASE pc[t] = "create" ->
            /\ Goto(t, "c_unres")
            /\ SetRes(t, IF how = "err" THEN "backend" ELSE how)
       [] pc[t] = "pcreate" ->
            /\ Goto(t, "u_drop")
            /\ SetRes(t, IF how = "err" THEN "post_create_hook" ELSE how)
       [] OTHER ->   \* pre / recycle / post: a failed recycle is not an error of get()
            /\ Goto(t, "u_drop")
            /\ SetRes(t, IF how \in {"err", "timeout_recycle"} THEN "none" ELSE how)

CreateOk(t) ==
  /\ nextObj <= MaxObjs
  /\ obj' = [obj EXCEPT ![t] = nextObj] /\ alive' = alive \cup {nextObj} /\ nextObj' = nextObj + 1
  /\ chain' = [chain EXCEPT ![t] = <<"create">>]
  /\ Goto(t, "c_size")

Outcomes(t) ==
  {"ok"} \cup (IF AllowFail THEN {"err"} ELSE {}) \cup (IF AllowPanic THEN {"panic"} ELSE {})
         \cup (IF AllowSuspend /\ IsAsync(pc[t], cnt[t]) THEN {"susp"} ELSE {})

ZeroTO(t) == HasRuntime /\ ((pc[t] = "create" /\ cto[t] = "zero") \/ (pc[t] = "recycle" /\ rto[t] = "zero"))

\* the call is entered (first poll) and decides at once, or returns Pending
Call(t, out) ==
  /\ pc[t] \in CallPcs /\ ~susp[t] /\ out \in Outcomes(t)
  /\ CASE out = "susp" /\ ZeroTO(t) ->
            \* timeout(0, fut): the future is polled once, then the deadline has already passed
            Fail(t, IF pc[t] = "create" THEN "timeout_create" ELSE "timeout_recycle") /\ UNCHANGED <<susp, obj, nextObj, alive>>
       [] out = "susp" /\ ~ZeroTO(t) -> susp' = [susp EXCEPT ![t] = TRUE] /\ UNCHANGED <<pc, obj, cnt, res, chain, ov, nextObj, alive>>
       [] out = "ok" /\ pc[t] = "create" -> CreateOk(t) /\ UNCHANGED <<susp, cnt, res, ov>>
       [] out = "ok" /\ pc[t] # "create" -> Advance(t) /\ UNCHANGED <<susp, obj, nextObj, alive>>
       [] OTHER -> Fail(t, out) /\ UNCHANGED <<susp, obj, nextObj, alive>>
  /\ UNCHANGED <<sem, slots, users, mode, cto, rto, arg, held, det, taken, ho, orphan, late, budget, poolGone, closeRet, panicked>>
  /\ Sched(t)

\* a suspended call completes and the future is polled again
Resume(t, out) ==
  /\ susp[t] /\ out \in (Outcomes(t) \ {"susp"})
  /\ susp' = [susp EXCEPT ![t] = FALSE]
  /\ CASE out = "ok" /\ pc[t] = "create" -> CreateOk(t) /\ UNCHANGED <<cnt, res, ov>>
       [] out = "ok" /\ pc[t] # "create" -> Advance(t) /\ UNCHANGED <<obj, nextObj, alive>>
       [] OTHER -> Fail(t, out) /\ UNCHANGED <<obj, nextObj, alive>>
  /\ UNCHANGED <<sem, slots, users, mode, cto, rto, arg, held, det, taken, ho, orphan, late, budget, poolGone, closeRet, panicked>>
  /\ Sched(t)

\* the get() future is dropped while a call is suspended
Cancel(t) ==
  /\ AllowCancel /\ susp[t]
  /\ susp' = [susp EXCEPT ![t] = FALSE] /\ Fail(t, "cancelled")
  /\ UNCHANGED <<sem, slots, users, obj, mode, cto, rto, arg, gv>>
  /\ Sched(t)

\* the create / recycle deadline passes while the call is suspended
Expire(t) ==
  /\ susp[t] /\ HasRuntime
  /\ \/ pc[t] = "create" /\ cto[t] = "finite" /\ Fail(t, "timeout_create")
     \/ pc[t] = "recycle" /\ rto[t] = "finite" /\ Fail(t, "timeout_recycle")
  /\ susp' = [susp EXCEPT ![t] = FALSE]
  /\ UNCHANGED <<sem, slots, users, obj, mode, cto, rto, arg, gv>>
  /\ Sched(t)

\* time passes (any amount) for a get() that has no deadline at the stage it is suspended in:
\* nothing happens.  (The harness advances the task's clock and polls the future.)
Tick(t) ==
  /\ HasRuntime
  /\ \/ susp[t] /\ pc[t] = "create" /\ cto[t] = "none"
     \/ susp[t] /\ pc[t] = "recycle" /\ rto[t] = "none"
     \/ susp[t] /\ pc[t] \in {"pre", "post", "pcreate"}
     \/ pc[t] = "g_wait" /\ mode[t] = "bl" /\ t \notin handed /\ ~closed
  /\ ~ticked[t] /\ ticked' = [ticked EXCEPT ![t] = TRUE]
  /\ UNCHANGED <<sem, slots, users, tv, ov, gv>>
  /\ running \in {NoTask, t} /\ running' = NoTask

\* lock; creating -= 1; size += 1; unlock
CSize(t) ==
  /\ pc[t] = "c_size" /\ lock = NoTask
  /\ creating' = creating - 1 /\ size' = size + 1
  /\ panicked' = (panicked \/ creating = 0)
  /\ IF FirstPcStage[1] = "fin"
     THEN Goto(t, "g_exit") /\ SetRes(t, "ok") /\ UNCHANGED cnt
     ELSE Goto(t, "pcreate") /\ cnt' = [cnt EXCEPT ![t] = 1] /\ UNCHANGED res
  /\ UNCHANGED <<sem, idle, maxSize, lock, users, obj, mode, cto, rto, arg, susp, chain, ov, held, nextObj, alive, det, taken, ho, orphan, late, budget, poolGone, closeRet>>
  /\ Sched(t)

\* reservation guard: lock; creating -= 1; unlock
CUnres(t) ==
  /\ pc[t] = "c_unres" /\ lock = NoTask
  /\ creating' = creating - 1 /\ panicked' = (panicked \/ creating = 0)
  /\ Goto(t, "g_exit")
  /\ UNCHANGED <<sem, idle, size, maxSize, lock, users, obj, mode, cto, rto, arg, cnt, susp, res, chain, ov, held, nextObj, alive, det, taken, ho, orphan, late, budget, poolGone, closeRet>>
  /\ Sched(t)

\* UnreadyObject::drop: lock; size -= 1; unlock; Manager::detach; object destroyed
UDrop(t) ==
  /\ pc[t] = "u_drop" /\ lock = NoTask
  /\ size' = size - 1 /\ panicked' = (panicked \/ size = 0)
  /\ LetGo({obj[t]}) /\ obj' = [obj EXCEPT ![t] = NoObj]
  /\ Goto(t, IF res[t] = "none" THEN "g_pop" ELSE "g_exit")
  /\ UNCHANGED <<sem, idle, creating, maxSize, lock, users, mode, cto, rto, arg, cnt, susp, res, chain, ov, held, nextObj, taken, ho, orphan, late, budget, poolGone, closeRet>>
  /\ Sched(t)

\* leaving the acquisition loop: hand the object out, or drop the permit
GExit(t) ==
  /\ pc[t] = "g_exit"
  /\ IF res[t] = "ok"
     THEN /\ held' = [held EXCEPT ![t] = @ \cup {obj[t]}] /\ ho' = [ho EXCEPT ![obj[t]] = @ + 1]
          /\ obj' = [obj EXCEPT ![t] = NoObj] /\ Goto(t, "idle") /\ UNCHANGED sem
     ELSE /\ SemRelease(1) /\ Goto(t, "x_users") /\ UNCHANGED <<held, ho, orphan, late, obj>>
  /\ UNCHANGED <<slots, users, mode, cto, rto, arg, cnt, susp, res, chain, ov, nextObj, alive, det, taken, orphan, late, budget, poolGone, closeRet, panicked>>
  /\ Sched(t)

\* users_guard: users.fetch_sub
XUsers(t) ==
  /\ pc[t] = "x_users" /\ users' = users - 1 /\ panicked' = (panicked \/ users = 0)
  /\ Finish(t)
  /\ UNCHANGED <<sem, slots, mode, cto, rto, arg, cnt, susp, res, chain, ov, nextObj, alive, det, taken, ho, orphan, late, budget, poolGone, closeRet>>
  /\ Sched(t)

----------------------------------------------------------------------------
(* returning an object (Object::drop -> return_object)                     *)

StartReturn(t, o) ==
  /\ pc[t] = "idle" /\ o \in held[t]
  /\ held' = [held EXCEPT ![t] = @ \ {o}]
  /\ IF poolGone
     THEN \* Weak::upgrade fails: the object is simply destroyed
          /\ alive' = alive \ {o} /\ orphan' = orphan \cup {o} /\ UNCHANGED <<pc, obj>>
     ELSE /\ obj' = [obj EXCEPT ![t] = o] /\ Goto(t, "ret_users") /\ UNCHANGED <<alive, orphan>>
  /\ SetRes(t, "none")
  /\ UNCHANGED <<sem, slots, users, mode, cto, rto, arg, cnt, susp, chain, ov, nextObj, det, taken, ho, late, budget, poolGone, closeRet, panicked>>
  /\ Sched(t)

RetUsers(t) ==
  /\ pc[t] = "ret_users" /\ users' = users - 1 /\ panicked' = (panicked \/ users = 0)
  /\ Goto(t, "ret_lock")
  /\ UNCHANGED <<sem, slots, obj, mode, cto, rto, arg, cnt, susp, res, chain, ov, held, nextObj, alive, det, taken, ho, orphan, late, budget, poolGone, closeRet>>
  /\ Sched(t)

RetLock(t) ==
  /\ pc[t] = "ret_lock" /\ lock = NoTask
  /\ IF size <= maxSize
     THEN /\ idle' = Append(idle, obj[t]) /\ Goto(t, "ret_add") /\ UNCHANGED <<size, det, alive, panicked, held>>
          /\ obj' = [obj EXCEPT ![t] = NoObj]
     ELSE /\ size' = size - 1 /\ panicked' = (panicked \/ size = 0)
          /\ LetGo({obj[t]}) /\ Finish(t) /\ UNCHANGED idle
  /\ UNCHANGED <<sem, creating, maxSize, lock, users, mode, cto, rto, arg, cnt, susp, res, chain, ov, nextObj, taken, ho, orphan, late, budget, poolGone, closeRet>>
  /\ Sched(t)

RetAdd(t) ==
  /\ pc[t] = "ret_add" /\ SemRelease(1) /\ Finish(t)
  /\ UNCHANGED <<slots, users, mode, cto, rto, arg, cnt, susp, res, chain, ov, nextObj, alive, det, taken, ho, orphan, late, budget, poolGone, closeRet, panicked>>
  /\ Sched(t)

----------------------------------------------------------------------------
(* Object::take -> detach_object                                           *)

StartTake(t, o) ==
  /\ AllowTake /\ pc[t] = "idle" /\ o \in held[t] /\ Spend
  /\ held' = [held EXCEPT ![t] = @ \ {o}] /\ taken' = taken \cup {o} /\ alive' = alive \ {o}
  /\ IF poolGone THEN orphan' = orphan \cup {o} /\ UNCHANGED <<pc, obj>>
     ELSE obj' = [obj EXCEPT ![t] = o] /\ Goto(t, "tk_users") /\ UNCHANGED orphan
  /\ SetRes(t, "none")
  /\ UNCHANGED <<sem, slots, users, mode, cto, rto, arg, cnt, susp, chain, ov, nextObj, det, ho, late, poolGone, closeRet, panicked>>
  /\ Sched(t)

TkUsers(t) ==
  /\ pc[t] = "tk_users" /\ users' = users - 1 /\ panicked' = (panicked \/ users = 0)
  /\ Goto(t, "tk_lock")
  /\ UNCHANGED <<sem, slots, obj, mode, cto, rto, arg, cnt, susp, res, chain, ov, held, nextObj, alive, det, taken, ho, orphan, late, budget, poolGone, closeRet>>
  /\ Sched(t)

\* lock; add_permits := size <= max_size; size -= 1; unlock; (no permit: detach at once)
TkLock(t) ==
  /\ pc[t] = "tk_lock" /\ lock = NoTask
  /\ size' = size - 1 /\ panicked' = (panicked \/ size = 0)
  /\ IF size <= maxSize
     THEN Goto(t, "tk_add") /\ UNCHANGED <<det, obj>>
     ELSE /\ det' = [det EXCEPT ![obj[t]] = @ + 1] /\ obj' = [obj EXCEPT ![t] = NoObj] /\ Goto(t, "idle")
  /\ UNCHANGED <<sem, idle, creating, maxSize, lock, users, mode, cto, rto, arg, cnt, susp, res, chain, ov, held, nextObj, alive, taken, ho, orphan, late, budget, poolGone, closeRet>>
  /\ Sched(t)

TkAdd(t) ==
  /\ pc[t] = "tk_add" /\ SemRelease(1)
  /\ det' = [det EXCEPT ![obj[t]] = @ + 1] /\ obj' = [obj EXCEPT ![t] = NoObj] /\ Goto(t, "idle")
  /\ UNCHANGED <<slots, users, mode, cto, rto, arg, cnt, susp, res, chain, ov, held, nextObj, alive, taken, ho, orphan, late, budget, poolGone, closeRet, panicked>>
  /\ Sched(t)

----------------------------------------------------------------------------
(* resize / close / retain                                                 *)

\* objects dropped from the front of the idle queue while the pool is over its limit
Surplus == IF size + creating > maxSize THEN Min(Len(idle), size + creating - maxSize) ELSE 0

Drain(k) ==
  /\ idle' = SubSeq(idle, k + 1, Len(idle)) /\ size' = size - k
  /\ LetGo({idle[i] : i \in 1..k})

StartResize(t, n) ==
  /\ pc[t] = "idle" /\ ~poolGone /\ n \in ResizeTargets /\ Spend
  /\ Goto(t, "rs_lock") /\ arg' = [arg EXCEPT ![t] = n] /\ SetRes(t, "none")
  /\ UNCHANGED <<sem, slots, users, obj, mode, cto, rto, cnt, susp, chain, ov, held, nextObj, alive, det, taken, ho, orphan, late, poolGone, closeRet, panicked>>
  /\ Sched(t)

\* lock; closed? -> return; max_size = n; (equal: unlock, return)
RsLock(t) ==
  /\ pc[t] = "rs_lock" /\ lock = NoTask
  /\ IF closed \/ arg[t] = maxSize
     THEN /\ Goto(t, "idle") /\ UNCHANGED <<maxSize, lock, cnt>>
     ELSE /\ maxSize' = arg[t] /\ lock' = t
          /\ IF arg[t] < maxSize
             THEN Goto(t, "rs_forget") /\ cnt' = [cnt EXCEPT ![t] = maxSize - arg[t]]
             ELSE Goto(t, "rs_grow") /\ cnt' = [cnt EXCEPT ![t] = arg[t] - maxSize]
  /\ UNCHANGED <<sem, idle, size, creating, users, obj, mode, cto, rto, arg, susp, res, chain, ov, gv>>
  /\ Sched(t)

\* one iteration of the permit-retiring loop; the last one also drains and unlocks
RsForget(t) ==
  /\ pc[t] = "rs_forget"
  /\ IF permits > 0 /\ cnt[t] > 1
     THEN /\ permits' = permits - 1 /\ cnt' = [cnt EXCEPT ![t] = @ - 1]
          /\ UNCHANGED <<pc, idle, size, lock, det, alive, closed, waitq, handed>>
     ELSE /\ permits' = IF permits > 0 THEN permits - 1 ELSE permits
          /\ UNCHANGED <<closed, waitq, handed>>
          /\ Drain(Surplus) /\ lock' = NoTask /\ Goto(t, "idle") /\ cnt' = [cnt EXCEPT ![t] = 0]
  /\ UNCHANGED <<creating, maxSize, users, obj, mode, cto, rto, arg, susp, res, chain, ov, held, nextObj, taken, ho, orphan, late, budget, poolGone, closeRet, panicked>>
  /\ Sched(t)

RsGrow(t) ==
  /\ pc[t] = "rs_grow" /\ SemRelease(cnt[t]) /\ lock' = NoTask /\ Goto(t, "idle")
  /\ cnt' = [cnt EXCEPT ![t] = 0]
  /\ UNCHANGED <<idle, size, creating, maxSize, users, obj, mode, cto, rto, arg, susp, res, chain, ov, gv>>
  /\ Sched(t)

StartClose(t) ==
  /\ AllowClose /\ pc[t] = "idle" /\ ~poolGone /\ Spend
  /\ Goto(t, "cl_lock") /\ SetRes(t, "none")
  /\ UNCHANGED <<sem, slots, users, obj, mode, cto, rto, arg, cnt, susp, chain, ov, held, nextObj, alive, det, taken, ho, orphan, late, poolGone, closeRet, panicked>>
  /\ Sched(t)

\* lock; semaphore.close(); max_size = 0; drop and detach every idle object; unlock
ClLock(t) ==
  /\ pc[t] = "cl_lock" /\ lock = NoTask
  /\ closed' = TRUE /\ waitq' = <<>> /\ UNCHANGED <<permits, handed>>
  /\ maxSize' = 0 /\ Drain(Len(idle))
  /\ closeRet' = TRUE /\ Goto(t, "idle")
  /\ late' = [u \in Tasks |-> late[u] \/ pc[u] \in {"g_users", "g_acq", "g_wait"}]
  /\ UNCHANGED <<creating, lock, users, obj, mode, cto, rto, arg, cnt, susp, res, chain, ov, held, nextObj, taken, ho, orphan, budget, poolGone, panicked>>
  /\ Sched(t)

StartRetain(t) ==
  /\ AllowRetain /\ pc[t] = "idle" /\ ~poolGone /\ Spend
  /\ Goto(t, "rt_status") /\ SetRes(t, "none")
  /\ UNCHANGED <<sem, slots, users, obj, mode, cto, rto, arg, cnt, susp, chain, ov, held, nextObj, alive, det, taken, ho, orphan, late, poolGone, closeRet, panicked>>
  /\ Sched(t)

RtStatus(t) ==
  /\ pc[t] = "rt_status" /\ lock = NoTask /\ Goto(t, "rt_lock")
  /\ UNCHANGED <<sem, slots, users, obj, mode, cto, rto, arg, cnt, susp, res, chain, ov, gv>>
  /\ Sched(t)

\* lock; then the predicate (user code, possibly stateful) is called for one idle object after the
\* other while the lock is held; every object it rejects is removed, detached and handed to the
\* caller; size -= removed; unlock.
RtLock(t) ==
  /\ pc[t] = "rt_lock" /\ lock = NoTask
  /\ IF idle = <<>>
     THEN Goto(t, "idle") /\ UNCHANGED <<lock, cnt>>
     ELSE Goto(t, "rt_pred") /\ lock' = t /\ cnt' = [cnt EXCEPT ![t] = 1]
  /\ UNCHANGED <<sem, idle, size, creating, maxSize, users, obj, mode, cto, rto, arg, susp, res, chain, ov, gv>>
  /\ Sched(t)

\* the predicate's answer for the object at position cnt[t]
RtPred(t, keep) ==
  /\ pc[t] = "rt_pred" /\ lock = t /\ keep \in BOOLEAN
  /\ LET i == cnt[t]
         o == idle[i]
         idle2 == IF keep THEN idle ELSE SubSeq(idle, 1, i - 1) \o SubSeq(idle, i + 1, Len(idle))
         j == IF keep THEN i + 1 ELSE i IN
     /\ idle' = idle2
     /\ IF keep THEN UNCHANGED <<size, det, taken, alive>>
        ELSE /\ size' = size - 1
             /\ det' = [det EXCEPT ![o] = @ + 1] /\ taken' = taken \cup {o} /\ alive' = alive \ {o}
     /\ IF j > Len(idle2)
        THEN Goto(t, "idle") /\ lock' = NoTask /\ cnt' = [cnt EXCEPT ![t] = 0]
        ELSE cnt' = [cnt EXCEPT ![t] = j] /\ UNCHANGED <<pc, lock>>
  /\ UNCHANGED <<sem, creating, maxSize, users, obj, mode, cto, rto, arg, susp, res, chain, ov, held, nextObj, ho, orphan, late, budget, poolGone, closeRet, panicked>>
  /\ Sched(t)

\* the last Pool handle is dropped (no operation in progress): idle objects are
\* destroyed with the pool; objects that are out keep only a Weak reference
DropPool ==
  /\ AllowDropPool /\ ~poolGone /\ \A t \in Tasks : pc[t] = "idle"
  /\ poolGone' = TRUE /\ alive' = alive \ SeqSet(idle) /\ orphan' = orphan \cup SeqSet(idle) /\ idle' = <<>>
  /\ UNCHANGED <<sem, size, creating, maxSize, lock, users, tv, ov, held, nextObj, det, taken, ho, late, budget, closeRet, panicked, running, ticked>>

----------------------------------------------------------------------------
Step(t) ==
  \/ \E m \in GetModes : \E c \in CreateTO : \E r \in RecycleTO : StartGet(t, m, c, r)
  \/ GUsers(t) \/ GAcq(t) \/ GWaitPoll(t) \/ GWaitCancel(t) \/ GWaitExpire(t) \/ GPop(t)
  \/ \E out \in {"ok", "err", "panic", "susp"} : Call(t, out)
  \/ \E out \in {"ok", "err", "panic"} : Resume(t, out)
  \/ Cancel(t) \/ Expire(t) \/ Tick(t)
  \/ CSize(t) \/ CUnres(t) \/ UDrop(t) \/ GExit(t) \/ XUsers(t)
  \/ \E o \in Objs : StartReturn(t, o) \/ StartTake(t, o)
  \/ RetUsers(t) \/ RetLock(t) \/ RetAdd(t)
  \/ TkUsers(t) \/ TkLock(t) \/ TkAdd(t)
  \/ \E n \in ResizeTargets : StartResize(t, n)
  \/ RsLock(t) \/ RsForget(t) \/ RsGrow(t)
  \/ StartClose(t) \/ ClLock(t)
  \/ StartRetain(t) \/ RtStatus(t) \/ RtLock(t) \/ \E keep \in BOOLEAN : RtPred(t, keep)

Next == (\E t \in Tasks : Step(t)) \/ DropPool

Spec == Init /\ [][Next]_vars

\* Fairness for the liveness clause of C02: every task that can take a step of its own eventually
\* does (the code runs), suspended calls eventually complete, and whoever holds an object
\* eventually gives it back.
Progress(t) ==
  \/ GUsers(t) \/ GAcq(t) \/ GWaitPoll(t) \/ GPop(t) \/ Call(t, "ok") \/ Resume(t, "ok")
  \/ CSize(t) \/ CUnres(t) \/ UDrop(t) \/ GExit(t) \/ XUsers(t)
  \/ RetUsers(t) \/ RetLock(t) \/ RetAdd(t) \/ TkUsers(t) \/ TkLock(t) \/ TkAdd(t)
  \/ RsLock(t) \/ RsForget(t) \/ RsGrow(t) \/ ClLock(t) \/ RtStatus(t) \/ RtLock(t) \/ RtPred(t, TRUE)
FairSpec == Spec /\ \A t \in Tasks : WF_vars(Progress(t)) /\ \A o \in Objs : WF_vars(StartReturn(t, o))

----------------------------------------------------------------------------
(* Bindings used by the replay / trace tools                               *)

\* schedule point (or harness gate) a task is parked at, per pc
SiteOf(l) ==
  CASE l = "g_users" -> "m.get.users"   [] l = "g_acq" -> "m.get.acquire"
    [] l = "g_pop" -> "m.get.pop"       [] l = "c_size" -> "m.create.size"
    [] l = "c_unres" -> "m.create.unreserve" [] l = "u_drop" -> "m.unready.drop"
    [] l = "g_exit" -> "m.get.exit"     [] l = "x_users" -> "m.get.users_dec"
    [] l = "ret_users" -> "m.ret.users" [] l = "ret_lock" -> "m.ret.lock" [] l = "ret_add" -> "m.ret.add"
    [] l = "tk_users" -> "m.take.users" [] l = "tk_lock" -> "m.take.lock" [] l = "tk_add" -> "m.take.add"
    [] l = "rs_lock" -> "m.resize.lock" [] l = "rs_forget" -> "m.resize.forget" [] l = "rs_grow" -> "m.resize.grow"
    [] l = "cl_lock" -> "m.close.lock"  [] l = "rt_status" -> "m.retain.status" [] l = "rt_lock" -> "m.retain.lock"
    [] l = "rt_pred" -> "pred"
    [] OTHER -> l      \* idle, g_wait, and the call gates pre/recycle/post/create/pcreate

----------------------------------------------------------------------------
(* Ground truth derived from the ghost variables, and the property          *)
(* predicates (DESIGN.md section 7).                                       *)

Out == UNION {held[t] : t \in Tasks}
TakePcs == {"tk_users", "tk_lock", "tk_add"}
RetPcs == {"ret_users", "ret_lock"}
GetPcs == {"g_users", "g_acq", "g_wait", "g_pop", "pre", "recycle", "post", "create",
           "c_size", "c_unres", "pcreate", "u_drop", "g_exit", "x_users"}
InGet == {t \in Tasks : pc[t] \in GetPcs}
\* objects in a task's hand that are still the pool's (not being handed over by take())
InHand == {t \in Tasks : obj[t] # NoObj /\ pc[t] \notin TakePcs}
Creating == {t \in Tasks : pc[t] = "create"}
\* C01: objects that exist on the pool's books, plus creations in flight
Live == Len(idle) + Cardinality(Out) + Cardinality(InHand) + Cardinality(Creating)
Blocked == {t \in Tasks : pc[t] = "g_wait" /\ t \notin handed /\ ~closed}
\* no task can take a step without a decision of the environment
Quiescent == \A t \in Tasks : pc[t] = "idle" \/ susp[t] \/ t \in Blocked
AtRest == \A t \in Tasks : pc[t] = "idle"
Resizing == \E t \in Tasks : pc[t] \in {"rs_lock", "rs_forget", "rs_grow", "cl_lock", "rt_pred"}

\* what Pool::status() returns when called now (the slots lock must be free)
StatusNow ==
  [max_size |-> maxSize, size |-> size,
   available |-> IF users < size THEN size - users ELSE 0,
   waiting |-> IF users < size THEN 0 ELSE users - size]

TypeOK ==
  /\ permits \in Nat /\ size \in Nat /\ creating \in Nat /\ users \in Nat /\ maxSize \in Nat
  /\ \A t \in Tasks : res[t] \in {"none", "ok", "closed", "timeout_wait", "timeout_create", "backend",
                                  "post_create_hook", "no_runtime", "cancelled", "panic"}
  /\ \A t \in Tasks : susp[t] => pc[t] \in CallPcs

\* --- structural invariants of the implementation (design level) -----------
UsersExact == ~poolGone =>
  users = Cardinality({t \in Tasks : pc[t] \in (GetPcs \ {"g_users"})}) + Cardinality(Out)
          + Cardinality({t \in Tasks : pc[t] \in {"ret_users", "tk_users"}})
SizeExact == ~poolGone =>
  size = Len(idle) + Cardinality(Out)
         + Cardinality({t \in Tasks : obj[t] # NoObj /\ pc[t] \notin {"c_size", "tk_add"}})
CreatingExact == creating = Cardinality({t \in Tasks : pc[t] \in {"create", "c_size", "c_unres"}})
\* permits may be stale (too many) but never too few: every idle object and every free
\* slot is backed by a permit somewhere
PermitsCover == (~poolGone /\ ~closed /\ lock = NoTask) =>
  permits + Cardinality(handed)
    + Cardinality({t \in Tasks : pc[t] \in {"g_pop", "pre", "recycle", "post", "create", "c_size",
                                             "c_unres", "pcreate", "u_drop"} \/ (pc[t] = "g_exit" /\ res[t] # "ok")})
    + Cardinality({t \in Tasks : pc[t] \in {"ret_add", "tk_add"}})
  >= Len(idle) + (IF maxSize > size + creating /\ ~Resizing THEN maxSize - size - creating ELSE 0)
NoWaiterWithFreePermit == waitq # <<>> => permits = 0

\* --- C01 -------------------------------------------------------------------
Inv_C01 == Live <= InitMax /\ Cardinality(Out) <= InitMax

\* --- C02 -------------------------------------------------------------------
Inv_C02a == ~panicked
Inv_C02b == (Quiescent /\ Blocked # {} /\ ~poolGone) => (idle = <<>> /\ Live >= maxSize)
Inv_C02c == (AtRest /\ Out = {} /\ ~closed /\ ~poolGone) =>
              /\ users = 0 /\ creating = 0 /\ size = Len(idle) /\ size <= maxSize
              /\ permits >= maxSize /\ waitq = <<>> /\ handed = {}

\* C02 (liveness): a get() that is waiting is always completed - with an object once capacity
\* becomes free, or with an error (pools whose max_size was resized to 0 excepted)
Live_C02d == \A t \in Tasks : (pc[t] = "g_wait" /\ maxSize > 0) ~> (pc[t] # "g_wait" \/ maxSize = 0)

\* --- C03 / C09: fate of objects ----------------------------------------------
BeingTaken == {obj[t] : t \in {u \in Tasks : pc[u] \in TakePcs}}
Inv_C09b == \A o \in 1..(nextObj - 1) :
              det[o] = IF o \in alive \/ o \in orphan \/ o \in BeingTaken THEN 0 ELSE 1
Inv_C03 == \A t \in Tasks : (pc[t] = "idle" /\ res[t] \in {"cancelled", "panic"}) => obj[t] = NoObj

\* --- C04 -------------------------------------------------------------------
CreateChain == <<"create">> \o [i \in 1..NPc |-> "pcreate" \o ToString(i)]
RecycleChain == [i \in 1..NPre |-> "pre" \o ToString(i)] \o <<"recycle">> \o [i \in 1..NPost |-> "post" \o ToString(i)]
Inv_C04a == \A t \in Tasks : (pc[t] = "g_exit" /\ res[t] = "ok") =>
              /\ chain[t] \in {CreateChain, RecycleChain}
              /\ obj[t] \in alive /\ det[obj[t]] = 0

\* --- C06 -------------------------------------------------------------------
Inv_C06a == \A t \in Tasks : late[t] =>
              /\ ~(pc[t] = "g_exit" /\ res[t] = "ok")
              /\ (pc[t] = "idle" => res[t] \in {"closed", "cancelled", "no_runtime", "none"})
Inv_C06b == closed => (idle = <<>> /\ maxSize = 0)
Step_C06c == closed => closed'
Act_C06c == [][Step_C06c]_vars

\* --- C07 -------------------------------------------------------------------
\* a resize() that returns leaves max_size = n and at most n idle objects
Step_C07a == \A t \in Tasks : (pc[t] \in {"rs_lock", "rs_forget", "rs_grow"} /\ pc'[t] = "idle" /\ ~closed)
                    => (maxSize' = arg[t] /\ Len(idle') <= maxSize')
Act_C07a == [][Step_C07a]_vars
\* nothing is admitted above the limit in force
Step_C07b == Live' > Live => Live' <= maxSize'
Act_C07b == [][Step_C07b]_vars
Inv_C07c == (Quiescent /\ Out = {} /\ ~Resizing /\ ~poolGone) => Len(idle) <= maxSize

\* --- C08 -------------------------------------------------------------------
Step_C08b == \A t \in Tasks : (pc[t] = "g_pop" /\ pc'[t] \in {"create", "c_unres"}) => idle = <<>>
Act_C08b == [][Step_C08b]_vars

\* --- C11 -------------------------------------------------------------------
Inv_C11a == (Quiescent /\ \A t \in Tasks : ~susp[t]) /\ lock = NoTask /\ ~poolGone =>
              StatusNow = [max_size |-> maxSize, size |-> Len(idle) + Cardinality(Out),
                           available |-> Len(idle), waiting |-> Cardinality(Blocked)]
Exist == Cardinality(alive) + Cardinality(BeingTaken) + Cardinality(Creating)
Inv_C11b == (lock = NoTask /\ ~poolGone) =>
              /\ StatusNow.size <= Exist
              /\ StatusNow.available <= StatusNow.size
              /\ StatusNow.waiting <= Cardinality(InGet)
Inv_C11noshrink == size <= InitMax

\* --- C13 -------------------------------------------------------------------
Inv_C13 ==
  /\ \A o \in Out \cup SeqSet(idle) : rc[o] = ho[o] - 1 /\ (rec[o] <=> rc[o] > 0)
  /\ \A t \in Tasks : pc[t] \in {"pre", "recycle", "post", "u_drop"} /\ obj[t] # NoObj /\ res[t] = "none"
                        => rc[obj[t]] = ho[obj[t]] - 1
  /\ \A t \in Tasks : pc[t] \in {"c_size", "pcreate"} => rc[obj[t]] = 0 /\ ~rec[obj[t]]

=============================================================================
