---------------------------- MODULE RedisConfig ----------------------------
(***************************************************************************)
(* C19 as decision tables (no behaviour: every initial state is one case).  *)
(*                                                                         *)
(* Slice "builder": Config::builder()/create_pool() of the three redis      *)
(*   flavours: both URL(s) and connection(s) named -> UrlAndConnection-     *)
(*   Specified; neither -> the default local server; otherwise exactly the  *)
(*   named servers; malformed URLs -> a configuration error, never a panic. *)
(*   "Which servers are used" is observed from outside: the harness listens *)
(*   on the named address and on a decoy.                                   *)
(* Slice "conv": ConnectionInfo / ConnectionAddr / RedisConnectionInfo /     *)
(*   SentinelNodeConnectionInfo converted to the redis crate's types and    *)
(*   back: every field preserved.  The specification's content here is the  *)
(*   identity function; TLC is a small-scope exhaustive input generator     *)
(*   (symbols stand for boundary values; DESIGN.md section 7, C19).         *)
(* Slice "serde": PoolConfig / Timeouts / QueueMode through serialise /      *)
(*   deserialise (typed JSON and string-typed environment-style sources),   *)
(*   omitted sections taking the documented defaults.                       *)
(***************************************************************************)
EXTENDS Integers, Sequences, TLC, Json

CONSTANT Slice

VARIABLES flavour, urls, conn,                       \* builder
          addr, db, username, password, protocol, tls,   \* conv
          maxsize, twait, tcreate, trecycle, qmode, source   \* serde
vars == <<flavour, urls, conn, addr, db, username, password, protocol, tls, maxsize, twait, tcreate, trecycle, qmode, source>>

N == "-"
UrlKinds == {"unset", "valid", "valid2", "noscheme", "badscheme", "empty", "squote", "dquote", "badport", "spaces", "onlyscheme",
             "mixed_gb", "mixed_bg"}   \* lists of seed nodes: a well-formed URL next to a malformed one (cluster / sentinel only)
Mixed == {"mixed_gb", "mixed_bg"}
Dur == {"omitted", "null", "0s0n", "1s0n", "0s1n", "maxsmaxn"}

Init ==
  CASE Slice = "builder" ->
         /\ flavour \in {"plain", "cluster", "sentinel"} /\ urls \in UrlKinds /\ conn \in {"unset", "tcp", "unix"}
         /\ (flavour = "plain" => urls \notin Mixed)
         /\ addr = N /\ db = N /\ username = N /\ password = N /\ protocol = N /\ tls = N
         /\ maxsize = N /\ twait = N /\ tcreate = N /\ trecycle = N /\ qmode = N /\ source = N
    [] Slice = "conv" ->
         /\ addr \in {"tcp", "tcptls_secure", "tcptls_insecure", "unix"}
         /\ db \in {"0", "1", "-1", "max", "min"} /\ username \in {"none", "empty", "text", "unicode"}
         /\ password \in {"none", "empty", "text"} /\ protocol \in {"RESP2", "RESP3"} /\ tls \in {"none", "secure", "insecure"}
         /\ flavour = N /\ urls = N /\ conn = N
         /\ maxsize = N /\ twait = N /\ tcreate = N /\ trecycle = N /\ qmode = N /\ source = N
    [] Slice = "serde" ->
         /\ maxsize \in {"omitted", "0", "1", "big"} /\ twait \in Dur /\ tcreate \in {"omitted", "1s0n"} /\ trecycle \in {"omitted", "0s1n"}
         /\ qmode \in {"omitted", "Fifo", "Lifo"} /\ source \in {"json", "env"}
         /\ flavour = N /\ urls = N /\ conn = N /\ addr = N /\ db = N /\ username = N /\ password = N /\ protocol = N /\ tls = N
Next == UNCHANGED vars
Spec == Init /\ [][Next]_vars

----------------------------------------------------------------------------
Malformed == {"noscheme", "badscheme", "empty", "squote", "dquote", "badport", "spaces", "onlyscheme"} \cup Mixed

ExpectBuilder ==
  IF urls # "unset" /\ conn # "unset" THEN "UrlAndConnectionSpecified"
  ELSE IF urls \in Malformed THEN "config_error"
  \* the redis crate's cluster client refuses unix-socket nodes: a configuration error, no panic
  ELSE IF flavour = "cluster" /\ conn = "unix" THEN "config_error"
  ELSE "ok"
\* which servers get contacted once a connection is attempted
ExpectServers ==
  IF ExpectBuilder # "ok" THEN "-"
  ELSE IF urls = "unset" /\ conn = "unset" THEN "default"
  ELSE IF urls \in {"valid", "valid2"} THEN "named_url"
  ELSE "named_conn"

\* durations: "null" and "omitted" both mean no timeout
DurOut(d) == IF d \in {"omitted", "null"} THEN "none" ELSE d
ExpectSerde ==
  [maxsize |-> IF maxsize = "omitted" THEN "default" ELSE maxsize,
   twait |-> DurOut(twait), tcreate |-> DurOut(tcreate), trecycle |-> DurOut(trecycle),
   qmode |-> IF qmode = "omitted" THEN "Fifo" ELSE qmode]

Case == [slice |-> Slice, flavour |-> flavour, urls |-> urls, conn |-> conn,
         addr |-> addr, db |-> db, username |-> username, password |-> password, protocol |-> protocol, tls |-> tls,
         maxsize |-> maxsize, twait |-> twait, tcreate |-> tcreate, trecycle |-> trecycle, qmode |-> qmode, source |-> source,
         expect |-> [builder |-> ExpectBuilder, servers |-> ExpectServers,
                     \* conversions are the identity on every field
                     addr |-> addr, db |-> db, username |-> username, password |-> password, protocol |-> protocol, tls |-> tls,
                     serde |-> ExpectSerde]]
Emit == PrintT(<<"CASE", ToJson(Case)>>)
Total == ExpectBuilder \in {"ok", "config_error", "UrlAndConnectionSpecified"}
=============================================================================
