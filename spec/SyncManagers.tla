---------------------------- MODULE SyncManagers ----------------------------
(***************************************************************************)
(* The pools built on SyncWrapper (deadpool-sqlite, -r2d2, -diesel): a      *)
(* managed pool (task level: one caller at a time, the pool's own          *)
(* bookkeeping is what ManagedPool.tla verifies) whose Manager::recycle is  *)
(* not free but determined by the state of the connection:                 *)
(*                                                                         *)
(*   recycle(c) = if c.is_mutex_poisoned() -> reject                        *)
(*                else interact(health check):                              *)
(*                   the check is a job that needs c's mutex; if a closure  *)
(*                   of a cancelled interact() is still running it waits;   *)
(*                   if the mutex is poisoned by then the job panics ->     *)
(*                   reject; else reject iff the backend reports the        *)
(*                   connection broken / invalid.                           *)
(*                                                                         *)
(* C15: a connection on which a closure panicked, or that is broken or      *)
(* invalid, is never handed out again; the pool replaces it and keeps its   *)
(* capacity.                                                               *)
(***************************************************************************)
EXTENDS Integers, Sequences, FiniteSets, TLC

CONSTANTS
  MaxSize, NConns, Budget,
  AllowBreak,      \* the backend can report connections broken (r2d2 has_broken, diesel open transaction)
  AllowInvalid     \* ... or failing the validity check (r2d2 is_valid, diesel ping)

Conns == 1..NConns
NoConn == 0

VARIABLES
  idle,        \* queue of idle connections (Fifo)
  size,        \* connections the pool counts
  held,        \* connections the caller holds
  nextC,       \* id of the next connection create() returns
  poisoned, broken, invalid,   \* per connection
  busy,        \* per connection: "none" | "ok" | "panic" | "break" | "invalid": a closure whose interact()
               \* future was dropped is still running and will end this way
  rec,         \* connection being recycled by the get() in progress (NoConn = none)
  dead,        \* connections the pool discarded
  budget

vars == <<idle, size, held, nextC, poisoned, broken, invalid, busy, rec, dead, budget>>

Init ==
  /\ idle = <<>> /\ size = 0 /\ held = {} /\ nextC = 1
  /\ poisoned = [c \in Conns |-> FALSE] /\ broken = [c \in Conns |-> FALSE] /\ invalid = [c \in Conns |-> FALSE]
  /\ busy = [c \in Conns |-> "none"] /\ rec = NoConn /\ dead = {} /\ budget = Budget

Spend == budget > 0 /\ budget' = budget - 1

\* --- get(): non-blocking, one object --------------------------------------------------
\* Outcome of get() once nothing is left to wait for; `q`, `sz`, `dd` = idle queue, size and
\* discarded set so far.  Rejected idle connections are skipped (discarded); the first one whose
\* health check has to wait for a running closure suspends the call (rec).
RECURSIVE Scan(_, _, _)
Scan(q, sz, dd) ==
  IF q = <<>>
  THEN IF sz < MaxSize /\ nextC <= NConns
       THEN [kind |-> "create", q |-> q, sz |-> sz + 1, dd |-> dd, c |-> nextC]
       ELSE IF sz < MaxSize THEN [kind |-> "bound", q |-> q, sz |-> sz, dd |-> dd, c |-> NoConn]
       ELSE [kind |-> "timeout", q |-> q, sz |-> sz, dd |-> dd, c |-> NoConn]
  ELSE LET c == Head(q) IN
       IF poisoned[c] THEN Scan(Tail(q), sz - 1, dd \cup {c})
       ELSE IF busy[c] # "none" THEN [kind |-> "wait", q |-> Tail(q), sz |-> sz, dd |-> dd, c |-> c]
       ELSE IF broken[c] \/ invalid[c] THEN Scan(Tail(q), sz - 1, dd \cup {c})
       ELSE [kind |-> "reuse", q |-> Tail(q), sz |-> sz, dd |-> dd, c |-> c]

Apply(r) ==
  /\ idle' = r.q /\ size' = r.sz /\ dead' = r.dd
  /\ CASE r.kind = "create" -> held' = held \cup {r.c} /\ nextC' = nextC + 1 /\ rec' = NoConn
       [] r.kind = "reuse"  -> held' = held \cup {r.c} /\ rec' = NoConn /\ UNCHANGED nextC
       [] r.kind = "wait"   -> rec' = r.c /\ UNCHANGED <<held, nextC>>
       [] OTHER             -> rec' = NoConn /\ UNCHANGED <<held, nextC>>

Get ==
  /\ rec = NoConn /\ Spend
  /\ Scan(idle, size, dead).kind # "bound"     \* (supply of connection ids exhausted: not explored)
  /\ Apply(Scan(idle, size, dead))
  /\ UNCHANGED <<poisoned, broken, invalid, busy>>

\* the closure that blocked the health check has ended: the check runs (or panics on the
\* poisoned mutex) and get() carries on
GetResume ==
  /\ rec # NoConn /\ busy[rec] = "none"
  /\ IF poisoned[rec] \/ broken[rec] \/ invalid[rec]
     THEN Scan(idle, size - 1, dead \cup {rec}).kind # "bound" /\ Apply(Scan(idle, size - 1, dead \cup {rec}))
     ELSE /\ held' = held \cup {rec} /\ rec' = NoConn /\ UNCHANGED <<idle, size, dead, nextC>>
  /\ UNCHANGED <<poisoned, broken, invalid, busy, budget>>

\* --- what callers and backends do -------------------------------------------------------
\* interact() awaited to the end
Interact(c, out) ==
  /\ rec = NoConn /\ c \in held /\ busy[c] = "none" /\ ~poisoned[c] /\ out \in {"ok", "panic"} /\ Spend
  /\ poisoned' = [poisoned EXCEPT ![c] = (out = "panic")]
  /\ UNCHANGED <<idle, size, held, nextC, broken, invalid, busy, rec, dead>>

\* interact() whose future is dropped while the closure runs; the closure will end normally, panic,
\* or leave the connection in a state the backend reports as broken / invalid
InteractCancel(c, out) ==
  /\ rec = NoConn /\ c \in held /\ busy[c] = "none" /\ ~poisoned[c] /\ Spend
  /\ out \in {"ok", "panic"} \cup (IF AllowBreak /\ ~broken[c] THEN {"break"} ELSE {}) \cup (IF AllowInvalid /\ ~invalid[c] THEN {"invalid"} ELSE {})
  /\ busy' = [busy EXCEPT ![c] = out]
  /\ UNCHANGED <<idle, size, held, nextC, poisoned, broken, invalid, rec, dead>>

\* that closure ends
Finish(c) ==
  /\ busy[c] # "none"
  /\ poisoned' = [poisoned EXCEPT ![c] = (@ \/ busy[c] = "panic")]
  /\ broken' = [broken EXCEPT ![c] = (@ \/ busy[c] = "break")]
  /\ invalid' = [invalid EXCEPT ![c] = (@ \/ busy[c] = "invalid")]
  /\ busy' = [busy EXCEPT ![c] = "none"]
  /\ UNCHANGED <<idle, size, held, nextC, rec, dead, budget>>

\* the caller propagates the panic of its closure (`interact(..).await.unwrap()`): its task unwinds while it
\* holds the connection, which goes back to the pool from inside the unwinding
UnwindReturn(c) ==
  /\ rec = NoConn /\ c \in held /\ busy[c] = "none" /\ ~poisoned[c] /\ Spend
  /\ poisoned' = [poisoned EXCEPT ![c] = TRUE]
  /\ held' = held \ {c} /\ idle' = Append(idle, c)
  /\ UNCHANGED <<size, nextC, broken, invalid, busy, rec, dead>>

Break(c) ==
  /\ AllowBreak /\ rec = NoConn /\ c \in held /\ ~broken[c] /\ busy[c] = "none" /\ ~poisoned[c] /\ Spend
  /\ broken' = [broken EXCEPT ![c] = TRUE]
  /\ UNCHANGED <<idle, size, held, nextC, poisoned, invalid, busy, rec, dead>>

Invalidate(c) ==
  /\ AllowInvalid /\ rec = NoConn /\ c \in held /\ ~invalid[c] /\ busy[c] = "none" /\ ~poisoned[c] /\ Spend
  /\ invalid' = [invalid EXCEPT ![c] = TRUE]
  /\ UNCHANGED <<idle, size, held, nextC, poisoned, broken, busy, rec, dead>>

Return(c) ==
  /\ rec = NoConn /\ c \in held
  /\ held' = held \ {c} /\ idle' = Append(idle, c)
  /\ UNCHANGED <<size, nextC, poisoned, broken, invalid, busy, rec, dead, budget>>

Next ==
  \/ Get \/ GetResume
  \/ \E c \in Conns : \E out \in {"ok", "panic"} : Interact(c, out)
  \/ \E c \in Conns : \E out \in {"ok", "panic", "break", "invalid"} : InteractCancel(c, out)
  \/ \E c \in Conns : Finish(c) \/ Break(c) \/ Invalidate(c) \/ Return(c) \/ UnwindReturn(c)

Spec == Init /\ [][Next]_vars

----------------------------------------------------------------------------
SeqSet(s) == {s[i] : i \in 1..Len(s)}
\* C15: whatever get() hands out is a connection whose last health check passed
Act_C15 == [][\A c \in Conns : (c \in held' /\ c \notin held) => ((~poisoned[c] /\ ~broken[c] /\ ~invalid[c] /\ busy[c] = "none") \/ c = nextC)]_vars
Inv_NeverReissued == \A c \in dead : c \notin held /\ c \notin SeqSet(idle)
\* capacity: the pool counts exactly its idle and checked-out connections (plus the one in recycling)
Inv_Capacity == size = Len(idle) + Cardinality(held) + (IF rec # NoConn THEN 1 ELSE 0) /\ size <= MaxSize
TypeOK == rec \in 0..NConns /\ size \in 0..MaxSize
=============================================================================
