SPECIFICATION Spec
CONSTANTS
  Tasks = {"t1", "t2"}
  InitMax = 1
  MaxObjs = 2
  Budget = 3
  Lifo = FALSE
  NPre = 0
  NPost = 0
  NPc = 0
  AsyncPre = {}
  AsyncPost = {}
  AsyncPc = {}
  GetModes = {"nb", "bl"}
  CreateTO = "none"
  RecycleTO = "none"
  HasRuntime = TRUE
  ResizeTargets = {}
  AllowClose = FALSE
  AllowRetain = FALSE
  AllowTake = FALSE
  AllowDropPool = FALSE
  AllowFail = TRUE
  AllowSuspend = TRUE
  AllowCancel = TRUE
  AllowPanic = FALSE
  ThreadLevel = TRUE
  HoldAndWait = TRUE
  UnwindDrops = FALSE
CHECK_DEADLOCK FALSE
INVARIANTS TypeOK UsersExact SizeExact CreatingExact PermitsCover NoWaiterWithFreePermit Inv_C01 Inv_C02a Inv_C02b Inv_C02c Inv_C09b Inv_C03 Inv_C04a Inv_C06a Inv_C06b Inv_C07c Inv_C11a Inv_C11b Inv_C11noshrink Inv_C13
PROPERTIES Act_C06c Act_C07a Act_C07b Act_C08b
