----------------------------- MODULE PgManager -----------------------------
(***************************************************************************)
(* The deadpool-postgres pool against a scripted wire-level server (C16).   *)
(* Task level (the pool's own bookkeeping is ManagedPool.tla's business).   *)
(*   recycle(c) = if the client's connection is closed -> reject            *)
(*                else per recycling method: nothing / "" / the clean-up    *)
(*                script / the custom SQL as ONE simple query; an error or  *)
(*                a disconnect rejects the client.                          *)
(*   prepare[_typed]_cached(q, types): cache keyed by (q, types) per client;*)
(*                a hit sends nothing, a miss sends one Parse on that very  *)
(*                connection; size() = number of keys.                      *)
(*   Manager::statement_caches: registry of the caches of exactly the       *)
(*                clients the pool owns (attached at create, detached when  *)
(*                the pool lets go of the client).                          *)
(***************************************************************************)
EXTENDS Integers, Sequences, FiniteSets, TLC

CONSTANTS MaxSize, NConns, Budget,
  Method,     \* "fast" | "verified" | "clean" | "custom"
  Modes,      \* server's answers to a recycle query: subset of {"ok", "error", "disconnect"}
  Keys,       \* statement cache keys (strings standing for (query, types) pairs)
  AllowDrop   \* the server may close connections at any time

Conns == 1..NConns

VARIABLES idle, size, held, nextC, dead, taken,
  closed,     \* per connection: closed by the server
  cache,      \* per connection: set of cached keys
  reg,        \* connections whose cache is registered with the manager
  nq,         \* per connection: simple queries received by the server
  parses,     \* per connection: sequence of keys parsed by the server
  budget

vars == <<idle, size, held, nextC, dead, taken, closed, cache, reg, nq, parses, budget>>

Init ==
  /\ idle = <<>> /\ size = 0 /\ held = {} /\ nextC = 1 /\ dead = {} /\ taken = {}
  /\ closed = [c \in Conns |-> FALSE] /\ cache = [c \in Conns |-> {}] /\ reg = {}
  /\ nq = [c \in Conns |-> 0] /\ parses = [c \in Conns |-> <<>>] /\ budget = Budget

Spend == budget > 0 /\ budget' = budget - 1
SendsQuery == Method # "fast"

\* get(): tries idle clients in queue order; plan[i] = server's answer to the i-th recycle query
RECURSIVE Scan(_, _, _, _, _, _)
Scan(q, sz, dd, asked, i, plan) ==
  IF q = <<>>
  THEN IF sz < MaxSize /\ nextC <= NConns
       THEN [kind |-> "create", q |-> q, sz |-> sz + 1, dd |-> dd, c |-> nextC, asked |-> asked, cl |-> {}]
       ELSE IF sz < MaxSize THEN [kind |-> "bound", q |-> q, sz |-> sz, dd |-> dd, c |-> 0, asked |-> asked, cl |-> {}]
       ELSE [kind |-> "timeout", q |-> q, sz |-> sz, dd |-> dd, c |-> 0, asked |-> asked, cl |-> {}]
  ELSE LET c == Head(q) IN
       IF closed[c]
       THEN Scan(Tail(q), sz - 1, dd \cup {c}, asked, i, plan)           \* no query on a closed connection
       ELSE IF ~SendsQuery
       THEN [kind |-> "reuse", q |-> Tail(q), sz |-> sz, dd |-> dd, c |-> c, asked |-> asked, cl |-> {}]
       ELSE IF plan[i] = "ok"
       THEN [kind |-> "reuse", q |-> Tail(q), sz |-> sz, dd |-> dd, c |-> c, asked |-> asked \cup {c}, cl |-> {}]
       ELSE LET r == Scan(Tail(q), sz - 1, dd \cup {c}, asked \cup {c}, i + 1, plan) IN
            [r EXCEPT !.cl = IF plan[i] = "disconnect" THEN @ \cup {c} ELSE @]

Get(plan) ==
  /\ Spend
  /\ LET r == Scan(idle, size, dead, {}, 1, plan) IN
     /\ r.kind # "bound"
     /\ idle' = r.q /\ size' = r.sz /\ dead' = r.dd
     /\ nq' = [c \in Conns |-> IF c \in r.asked THEN nq[c] + 1 ELSE nq[c]]
     /\ closed' = [c \in Conns |-> closed[c] \/ c \in r.cl]
     /\ reg' = (reg \ (r.dd \ dead)) \cup (IF r.kind = "create" THEN {r.c} ELSE {})
     /\ CASE r.kind = "create" -> held' = held \cup {r.c} /\ nextC' = nextC + 1
          [] r.kind = "reuse" -> held' = held \cup {r.c} /\ UNCHANGED nextC
          [] OTHER -> UNCHANGED <<held, nextC>>
  /\ UNCHANGED <<taken, cache, parses>>

\* the server closes a connection (idle or checked out)
Drop(c) ==
  /\ AllowDrop /\ c < nextC /\ ~closed[c] /\ c \notin dead /\ c \notin taken /\ Spend
  /\ closed' = [closed EXCEPT ![c] = TRUE]
  /\ UNCHANGED <<idle, size, held, nextC, dead, taken, cache, reg, nq, parses>>

\* prepare_cached / prepare_typed_cached on a client the caller holds (or has taken)
Prepare(c, k) ==
  /\ (c \in held \/ c \in taken) /\ ~closed[c] /\ k \in Keys /\ Spend
  /\ IF k \in cache[c]
     THEN UNCHANGED <<cache, parses>>                                      \* hit: no round trip
     ELSE cache' = [cache EXCEPT ![c] = @ \cup {k}] /\ parses' = [parses EXCEPT ![c] = Append(@, k)]
  /\ UNCHANGED <<idle, size, held, nextC, dead, taken, closed, reg, nq>>

\* two prepare calls for the same key in flight together on one client (join!): both miss,
\* both prepare, the key is cached once
PrepareJoin(c, k) ==
  /\ (c \in held \/ c \in taken) /\ ~closed[c] /\ k \in Keys /\ Spend
  /\ IF k \in cache[c]
     THEN UNCHANGED <<cache, parses>>
     ELSE cache' = [cache EXCEPT ![c] = @ \cup {k}] /\ parses' = [parses EXCEPT ![c] = @ \o <<k, k>>]
  /\ UNCHANGED <<idle, size, held, nextC, dead, taken, closed, reg, nq>>

\* the same through code that is generic over `GenericClient`, handed the pooled client
PrepareG(c, k) ==
  /\ c \in held /\ ~closed[c] /\ k \in Keys /\ Spend
  /\ IF k \in cache[c]
     THEN UNCHANGED <<cache, parses>>
     ELSE cache' = [cache EXCEPT ![c] = @ \cup {k}] /\ parses' = [parses EXCEPT ![c] = Append(@, k)]
  /\ UNCHANGED <<idle, size, held, nextC, dead, taken, closed, reg, nq>>

\* the same through deadpool_postgres::Transaction (d = 1), a nested transaction / savepoint (d = 2), or a
\* transaction handed to code generic over `GenericClient` (d = 3): the wrappers share the client's
\* statement cache; BEGIN .. COMMIT travel on the client's connection
TxPrepare(c, k, d) ==
  /\ c \in held /\ ~closed[c] /\ k \in Keys /\ d \in {1, 2, 3} /\ Spend
  /\ IF k \in cache[c]
     THEN UNCHANGED <<cache, parses>>
     ELSE cache' = [cache EXCEPT ![c] = @ \cup {k}] /\ parses' = [parses EXCEPT ![c] = Append(@, k)]
  /\ UNCHANGED <<idle, size, held, nextC, dead, taken, closed, reg, nq>>

\* Manager::statement_caches.clear() / .remove(key): exactly the registered caches
Clear ==
  /\ Spend
  /\ cache' = [c \in Conns |-> IF c \in reg THEN {} ELSE cache[c]]
  /\ UNCHANGED <<idle, size, held, nextC, dead, taken, closed, reg, nq, parses>>
Remove(k) ==
  /\ k \in Keys /\ Spend
  /\ cache' = [c \in Conns |-> IF c \in reg THEN cache[c] \ {k} ELSE cache[c]]
  /\ UNCHANGED <<idle, size, held, nextC, dead, taken, closed, reg, nq, parses>>

Return(c) ==
  /\ c \in held
  /\ held' = held \ {c} /\ idle' = Append(idle, c)
  /\ UNCHANGED <<size, nextC, dead, taken, closed, cache, reg, nq, parses, budget>>

\* Object::take: the client leaves the pool (detached: its cache is no longer registered)
Take(c) ==
  /\ c \in held /\ Spend
  /\ held' = held \ {c} /\ size' = size - 1 /\ taken' = taken \cup {c} /\ reg' = reg \ {c}
  /\ UNCHANGED <<idle, nextC, dead, closed, cache, nq, parses>>

\* the same while another thread is busy inside the registry (holds its lock): detaching waits
TakeBusy(c) ==
  /\ c \in held /\ Spend
  /\ held' = held \ {c} /\ size' = size - 1 /\ taken' = taken \cup {c} /\ reg' = reg \ {c}
  /\ UNCHANGED <<idle, nextC, dead, closed, cache, nq, parses>>

\* two clients taken by two threads at the same moment, both waiting for the registry first
TakeBoth(c1, c2) ==
  /\ c1 < c2 /\ c1 \in held /\ c2 \in held /\ Spend
  /\ held' = held \ {c1, c2} /\ size' = size - 2 /\ taken' = taken \cup {c1, c2} /\ reg' = reg \ {c1, c2}
  /\ UNCHANGED <<idle, nextC, dead, closed, cache, nq, parses>>

Plans == [1..MaxSize -> Modes]
Next ==
  \/ \E plan \in Plans : Get(plan)
  \/ \E c \in Conns : Drop(c) \/ Return(c) \/ Take(c) \/ TakeBusy(c)
  \/ \E c \in Conns : \E k \in Keys : Prepare(c, k) \/ PrepareJoin(c, k)
  \/ \E c \in Conns : \E k \in Keys : \E d \in {1, 2, 3} : TxPrepare(c, k, d)
  \/ \E c \in Conns : \E k \in Keys : PrepareG(c, k)
  \/ \E c1 \in Conns : \E c2 \in Conns : TakeBoth(c1, c2)
  \/ Clear \/ \E k \in Keys : Remove(k)
Spec == Init /\ [][Next]_vars

----------------------------------------------------------------------------
SeqSet(s) == {s[i] : i \in 1..Len(s)}
TypeOK == size \in 0..MaxSize
\* a client whose connection has closed is never handed out
Act_C16_closed == [][\A c \in Conns : (c \in held' /\ c \notin held) => ~closed'[c]]_vars
\* the registry addresses exactly the clients the pool owns
Inv_C16_registry == reg = SeqSet(idle) \cup held
\* a key is parsed at most once per connection unless it was evicted in between (cache consistency)
Inv_C16_cache == \A c \in Conns : cache[c] \subseteq SeqSet(parses[c])
Inv_DeadStayDead == \A c \in dead : c \notin held /\ c \notin SeqSet(idle)
Inv_Capacity == size = Len(idle) + Cardinality(held) /\ size <= MaxSize
=============================================================================
