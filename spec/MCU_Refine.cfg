SPECIFICATION Spec
CONSTANTS
  Tasks = {"t1", "t2", "t3"}
  MaxSize = 2
  Preload = 0
  NObjs = 3
  Budget = 5
  GetModes = {"try", "bl", "timed"}
  HasRuntime = TRUE
  AllowClose = FALSE
  AllowTake = TRUE
  AllowRemove = TRUE
  AllowAdd = TRUE
  AllowCancel = TRUE
  AllowDropPool = FALSE
CHECK_DEADLOCK FALSE
INVARIANTS RefInv
PROPERTIES Refines
