---- MODULE MC_Counting ----
(* TLC-only wrapper of ManagedCounting (Apalache type-checks every definition of the module it
   is given, so the untyped ones live here). *)
EXTENDS ManagedCounting
vars == <<permits, waiting, handed, pre, recycling, udrop, creating, csize, cunres, postc, done, exiting, out,
          returning, tkadd, idle, size, cr>>
Spec == Init /\ [][Next]_vars
Bound == waiting <= 3 /\ out <= 3
====
