--------------------------- MODULE UnmanagedPool ---------------------------
(***************************************************************************)
(* deadpool::unmanaged::Pool at the grain of its critical sections (one    *)
(* action per segment between two `crate::verif::point` schedule points).  *)
(* Two tokio semaphores: `sem` (one permit per queued object) and `ssem`   *)
(* (one permit per free size slot), a Mutex<Vec<T>> used as a stack, and   *)
(* the atomics `size` and `available`.  The atomics are only ever changed  *)
(* by commuting fetch_add/fetch_sub and only read by status(), so each     *)
(* update is merged into the neighbouring segment (sound for every         *)
(* property that reads status() at rest).                                  *)
(* Models the tree after the `fix:` commits: a get that finds the queue     *)
(* empty after close() reports Closed, `_add` cleans up after a concurrent *)
(* close(), callers of get are counted in `available` while they wait.     *)
(***************************************************************************)
EXTENDS Integers, Sequences, FiniteSets, TLC

CONSTANTS
  Tasks,
  MaxSize,       \* max_size of the pool
  Preload,       \* number of objects the pool is built from (From<iterator>): then MaxSize = Preload
  NObjs,         \* objects that exist in the universe (1..Preload start inside the pool)
  Budget,
  GetModes,      \* subset of {"try", "bl", "timed"}
  HasRuntime,
  AllowClose, AllowTake, AllowRemove, AllowAdd, AllowCancel, AllowDropPool

NoTask == "none"
NoObj == 0
Objs == 1..NObjs

VARIABLES
  sem, ssem,          \* [p: permits, c: closed, q: wait queue, h: handed]
  queue, size, avail,
  pc, obj, mode, rm, res,   \* rm: the get in progress is a remove (get + take)
  held,               \* objects each task holds as Object<T>
  ext,                \* objects in a caller's hands outside the pool (never added, removed, taken, refused)
  dead,               \* objects that have been destroyed
  cdrop,              \* ... of which by the caller itself (dropping an add() future drops the object it owns)
  budget, closeRet, poolGone, late

vars == <<sem, ssem, queue, size, avail, pc, obj, mode, rm, res, held, ext, dead, cdrop, budget, closeRet, poolGone, late>>

Min(a, b) == IF a < b THEN a ELSE b
SeqSet(s) == {s[i] : i \in 1..Len(s)}
Without(s, x) == SelectSeq(s, LAMBDA y : y # x)

NewSem(n) == [p |-> n, c |-> FALSE, q |-> <<>>, h |-> {}]

Init ==
  /\ sem = NewSem(Preload) /\ ssem = NewSem(MaxSize - Preload)
  /\ queue = [i \in 1..Preload |-> i] /\ size = Preload /\ avail = Preload
  /\ pc = [t \in Tasks |-> "idle"] /\ obj = [t \in Tasks |-> NoObj]
  /\ mode = [t \in Tasks |-> "try"] /\ rm = [t \in Tasks |-> FALSE] /\ res = [t \in Tasks |-> "none"]
  /\ held = [t \in Tasks |-> {}] /\ ext = Objs \ (1..Preload) /\ dead = {} /\ cdrop = {}
  /\ budget = Budget /\ closeRet = FALSE /\ poolGone = FALSE /\ late = [t \in Tasks |-> FALSE]

\* --- tokio semaphore, as functions on the record --------------------------------
Release(s, n) ==
  LET k == Min(n, Len(s.q)) IN
  [s EXCEPT !.h = @ \cup {s.q[i] : i \in 1..k}, !.q = SubSeq(s.q, k + 1, Len(s.q)), !.p = @ + (n - k)]
DropWaiter(s, t) ==
  IF t \in s.h
  THEN IF s.q # <<>> THEN [s EXCEPT !.h = (@ \ {t}) \cup {Head(s.q)}, !.q = Tail(s.q)]
       ELSE [s EXCEPT !.h = @ \ {t}, !.p = @ + 1]
  ELSE [s EXCEPT !.q = Without(@, t)]
Close(s) == [s EXCEPT !.c = TRUE, !.q = <<>>]

Goto(t, l) == pc' = [pc EXCEPT ![t] = l]
SetRes(t, r) == res' = [res EXCEPT ![t] = r]
Spend == budget > 0 /\ budget' = budget - 1

\* clear(): lock; size -= len; available -= len; queue.clear()
ClearVars ==
  /\ size' = size - Len(queue) /\ avail' = avail - Len(queue)
  /\ dead' = dead \cup SeqSet(queue) /\ queue' = <<>> /\ UNCHANGED cdrop

----------------------------------------------------------------------------
(* get / try_get / timeout_get and the remove variants (remove = get + take) *)

\* arg "rm" = TRUE for remove / try_remove / timeout_remove
StartGet(t, m, r) ==
  /\ pc[t] = "idle" /\ ~poolGone /\ m \in GetModes /\ (r => AllowRemove) /\ Spend
  /\ Goto(t, "g_acq") /\ mode' = [mode EXCEPT ![t] = m] /\ rm' = [rm EXCEPT ![t] = r] /\ SetRes(t, "none")
  /\ late' = [late EXCEPT ![t] = closeRet]
  /\ UNCHANGED <<sem, ssem, queue, size, avail, obj, held, ext, dead, cdrop, closeRet, poolGone>>


\* Waiting::new (available -= 1); try_acquire / first poll of acquire.  On failure the
\* Waiting guard gives the count back in the same segment.
GAcq(t) ==
  /\ pc[t] = "g_acq"
  /\ LET m == mode[t] IN
     IF m = "timed" /\ ~HasRuntime
     THEN Goto(t, "idle") /\ SetRes(t, "no_runtime") /\ UNCHANGED <<sem, avail>>
     ELSE IF sem.c
     THEN Goto(t, "idle") /\ SetRes(t, "closed") /\ UNCHANGED <<sem, avail>>
     ELSE IF sem.p > 0
     THEN sem' = [sem EXCEPT !.p = @ - 1] /\ avail' = avail - 1 /\ Goto(t, "g_pop") /\ UNCHANGED res
     ELSE IF m = "try"
     THEN Goto(t, "idle") /\ SetRes(t, "timeout") /\ UNCHANGED <<sem, avail>>
     ELSE sem' = [sem EXCEPT !.q = Append(@, t)] /\ avail' = avail - 1 /\ Goto(t, "g_wait") /\ UNCHANGED res
  /\ UNCHANGED <<ssem, queue, size, obj, mode, rm, held, ext, dead, cdrop, budget, closeRet, poolGone, late>>

GWaitPoll(t) ==
  /\ pc[t] = "g_wait" /\ (t \in sem.h \/ sem.c)
  /\ IF sem.c
     THEN sem' = DropWaiter(sem, t) /\ avail' = avail + 1 /\ Goto(t, "idle") /\ SetRes(t, "closed")
     ELSE sem' = [sem EXCEPT !.h = @ \ {t}] /\ Goto(t, "g_pop") /\ UNCHANGED <<res, avail>>
  /\ UNCHANGED <<ssem, queue, size, obj, mode, rm, held, ext, dead, cdrop, budget, closeRet, poolGone, late>>

GWaitCancel(t) ==
  /\ AllowCancel /\ pc[t] = "g_wait"
  /\ sem' = DropWaiter(sem, t) /\ avail' = avail + 1 /\ Goto(t, "idle") /\ SetRes(t, "cancelled")
  /\ UNCHANGED <<ssem, queue, size, obj, mode, rm, held, ext, dead, cdrop, budget, closeRet, poolGone, late>>

GWaitExpire(t) ==
  /\ pc[t] = "g_wait" /\ mode[t] = "timed" /\ t \notin sem.h /\ ~sem.c
  /\ sem' = DropWaiter(sem, t) /\ avail' = avail + 1 /\ Goto(t, "idle") /\ SetRes(t, "timeout")
  /\ UNCHANGED <<ssem, queue, size, obj, mode, rm, held, ext, dead, cdrop, budget, closeRet, poolGone, late>>

\* lock; pop (the Vec is a stack)
GPop(t) ==
  /\ pc[t] = "g_pop"
  /\ IF queue # <<>>
     THEN LET o == queue[Len(queue)] IN
          /\ queue' = SubSeq(queue, 1, Len(queue) - 1)
          /\ IF rm[t]
             THEN obj' = [obj EXCEPT ![t] = o] /\ Goto(t, "tk") /\ UNCHANGED <<held, res>>
             ELSE held' = [held EXCEPT ![t] = @ \cup {o}] /\ Goto(t, "idle") /\ SetRes(t, "ok") /\ UNCHANGED obj
     ELSE \* emptied by close() after the permit was acquired
          Goto(t, "g_closed") /\ UNCHANGED <<queue, obj, held, res>>
  /\ UNCHANGED <<sem, ssem, size, avail, mode, rm, ext, dead, cdrop, budget, closeRet, poolGone, late>>

\* permit dropped (released), Waiting dropped (available += 1)
GClosed(t) ==
  /\ pc[t] = "g_closed"
  /\ sem' = Release(sem, 1) /\ avail' = avail + 1 /\ Goto(t, "idle") /\ SetRes(t, "closed")
  /\ UNCHANGED <<ssem, queue, size, obj, mode, rm, held, ext, dead, cdrop, budget, closeRet, poolGone, late>>

----------------------------------------------------------------------------
(* Object::take (also second half of remove): size -= 1; size_semaphore.add_permits(1) *)

StartTake(t, o) ==
  /\ AllowTake /\ pc[t] = "idle" /\ o \in held[t] /\ Spend
  /\ held' = [held EXCEPT ![t] = @ \ {o}] /\ SetRes(t, "none")
  /\ IF poolGone THEN ext' = ext \cup {o} /\ UNCHANGED <<pc, obj>>
     ELSE obj' = [obj EXCEPT ![t] = o] /\ Goto(t, "tk") /\ UNCHANGED ext
  /\ rm' = [rm EXCEPT ![t] = FALSE]
  /\ UNCHANGED <<sem, ssem, queue, size, avail, mode, dead, cdrop, closeRet, poolGone, late>>

Tk(t) ==
  /\ pc[t] = "tk"
  /\ size' = size - 1 /\ ssem' = Release(ssem, 1)
  /\ ext' = ext \cup {obj[t]} /\ obj' = [obj EXCEPT ![t] = NoObj]
  /\ Goto(t, "idle") /\ SetRes(t, IF rm[t] THEN "ok" ELSE "none")
  /\ rm' = [rm EXCEPT ![t] = FALSE]
  /\ UNCHANGED <<sem, queue, avail, mode, held, dead, cdrop, budget, closeRet, poolGone, late>>

----------------------------------------------------------------------------
(* returning an object (Object::drop)                                      *)

StartReturn(t, o) ==
  /\ pc[t] = "idle" /\ o \in held[t]
  /\ held' = [held EXCEPT ![t] = @ \ {o}] /\ SetRes(t, "none")
  /\ IF poolGone THEN dead' = dead \cup {o} /\ UNCHANGED <<pc, obj>>
     ELSE obj' = [obj EXCEPT ![t] = o] /\ Goto(t, "d_push") /\ UNCHANGED dead
  /\ UNCHANGED cdrop
  /\ UNCHANGED <<sem, ssem, queue, size, avail, mode, rm, ext, budget, closeRet, poolGone, late>>

DPush(t) ==
  /\ pc[t] = "d_push"
  /\ queue' = Append(queue, obj[t]) /\ avail' = avail + 1 /\ obj' = [obj EXCEPT ![t] = NoObj]
  /\ Goto(t, "d_add")
  /\ UNCHANGED <<sem, ssem, size, mode, rm, res, held, ext, dead, cdrop, budget, closeRet, poolGone, late>>

DAdd(t) ==
  /\ pc[t] = "d_add" /\ sem' = Release(sem, 1) /\ Goto(t, "d_clean")
  /\ UNCHANGED <<ssem, queue, size, avail, obj, mode, rm, res, held, ext, dead, cdrop, budget, closeRet, poolGone, late>>

\* clean_up(): if closed then clear()
DClean(t) ==
  /\ pc[t] \in {"d_clean", "a_clean"}
  /\ IF sem.c THEN ClearVars ELSE UNCHANGED <<queue, size, avail, dead, cdrop>>
  /\ Goto(t, "idle") /\ SetRes(t, IF pc[t] = "a_clean" THEN "ok" ELSE "none")
  /\ UNCHANGED <<sem, ssem, obj, mode, rm, held, ext, budget, closeRet, poolGone, late>>

----------------------------------------------------------------------------
(* add / try_add                                                           *)

StartAdd(t, o, m) ==
  /\ AllowAdd /\ pc[t] = "idle" /\ ~poolGone /\ o \in ext /\ m \in {"try", "bl"} /\ Spend
  /\ ext' = ext \ {o} /\ obj' = [obj EXCEPT ![t] = o] /\ mode' = [mode EXCEPT ![t] = m]
  /\ Goto(t, "a_acq") /\ SetRes(t, "none") /\ late' = [late EXCEPT ![t] = closeRet]
  /\ UNCHANGED <<sem, ssem, queue, size, avail, rm, held, dead, cdrop, closeRet, poolGone>>

\* the object is handed back to the caller
GiveBack(t, r) ==
  /\ ext' = ext \cup {obj[t]} /\ obj' = [obj EXCEPT ![t] = NoObj] /\ Goto(t, "idle") /\ SetRes(t, r)

AAcq(t) ==
  /\ pc[t] = "a_acq"
  /\ IF ssem.c THEN GiveBack(t, "closed") /\ UNCHANGED ssem
     ELSE IF ssem.p > 0 THEN ssem' = [ssem EXCEPT !.p = @ - 1] /\ Goto(t, "a_push") /\ UNCHANGED <<ext, obj, res>>
     ELSE IF mode[t] = "try" THEN GiveBack(t, "timeout") /\ UNCHANGED ssem
     ELSE ssem' = [ssem EXCEPT !.q = Append(@, t)] /\ Goto(t, "a_wait") /\ UNCHANGED <<ext, obj, res>>
  /\ UNCHANGED <<sem, queue, size, avail, mode, rm, held, dead, cdrop, budget, closeRet, poolGone, late>>

AWaitPoll(t) ==
  /\ pc[t] = "a_wait" /\ (t \in ssem.h \/ ssem.c)
  /\ IF ssem.c THEN ssem' = DropWaiter(ssem, t) /\ GiveBack(t, "closed")
     ELSE ssem' = [ssem EXCEPT !.h = @ \ {t}] /\ Goto(t, "a_push") /\ UNCHANGED <<ext, obj, res>>
  /\ UNCHANGED <<sem, queue, size, avail, mode, rm, held, dead, cdrop, budget, closeRet, poolGone, late>>

\* dropping the add() future drops the object it owns: the caller's own doing
AWaitCancel(t) ==
  /\ AllowCancel /\ pc[t] = "a_wait"
  /\ ssem' = DropWaiter(ssem, t)
  /\ dead' = dead \cup {obj[t]} /\ cdrop' = cdrop \cup {obj[t]}
  /\ obj' = [obj EXCEPT ![t] = NoObj] /\ Goto(t, "idle") /\ SetRes(t, "cancelled") /\ UNCHANGED ext
  /\ UNCHANGED <<sem, queue, size, avail, mode, rm, held, budget, closeRet, poolGone, late>>

\* _add: size += 1; lock; push; unlock; available += 1
APush(t) ==
  /\ pc[t] = "a_push"
  /\ size' = size + 1 /\ queue' = Append(queue, obj[t]) /\ avail' = avail + 1
  /\ obj' = [obj EXCEPT ![t] = NoObj] /\ Goto(t, "a_add")
  /\ UNCHANGED <<sem, ssem, mode, rm, res, held, ext, dead, cdrop, budget, closeRet, poolGone, late>>

AAdd(t) ==
  /\ pc[t] = "a_add" /\ sem' = Release(sem, 1) /\ Goto(t, "a_clean")
  /\ UNCHANGED <<ssem, queue, size, avail, obj, mode, rm, res, held, ext, dead, cdrop, budget, closeRet, poolGone, late>>

----------------------------------------------------------------------------
(* close                                                                   *)

StartClose(t) ==
  /\ AllowClose /\ pc[t] = "idle" /\ ~poolGone /\ Spend
  /\ Goto(t, "c_sem") /\ SetRes(t, "none")
  /\ UNCHANGED <<sem, ssem, queue, size, avail, obj, mode, rm, held, ext, dead, cdrop, closeRet, poolGone, late>>

CSem(t) ==
  /\ pc[t] = "c_sem" /\ sem' = Close(sem) /\ Goto(t, "c_ssem")
  /\ UNCHANGED <<ssem, queue, size, avail, obj, mode, rm, res, held, ext, dead, cdrop, budget, closeRet, poolGone, late>>
CSsem(t) ==
  /\ pc[t] = "c_ssem" /\ ssem' = Close(ssem) /\ Goto(t, "c_clear")
  /\ UNCHANGED <<sem, queue, size, avail, obj, mode, rm, res, held, ext, dead, cdrop, budget, closeRet, poolGone, late>>
CClear(t) ==
  /\ pc[t] = "c_clear" /\ ClearVars /\ Goto(t, "idle") /\ closeRet' = TRUE
  /\ late' = [u \in Tasks |-> late[u] \/ pc[u] \in {"g_acq", "g_wait", "a_acq", "a_wait"}]
  /\ UNCHANGED <<sem, ssem, obj, mode, rm, res, held, ext, budget, poolGone>>

DropPool ==
  /\ AllowDropPool /\ ~poolGone /\ \A t \in Tasks : pc[t] = "idle"
  /\ poolGone' = TRUE /\ dead' = dead \cup SeqSet(queue) /\ queue' = <<>> /\ UNCHANGED cdrop
  /\ UNCHANGED <<sem, ssem, size, avail, pc, obj, mode, rm, res, held, ext, budget, closeRet, late>>

Step(t) ==
  \/ \E m \in GetModes : \E r \in BOOLEAN : StartGet(t, m, r)
  \/ GAcq(t) \/ GWaitPoll(t) \/ GWaitCancel(t) \/ GWaitExpire(t) \/ GPop(t) \/ GClosed(t)
  \/ \E o \in Objs : StartTake(t, o) \/ StartReturn(t, o)
  \/ Tk(t) \/ DPush(t) \/ DAdd(t) \/ DClean(t)
  \/ \E o \in Objs : \E m \in {"try", "bl"} : StartAdd(t, o, m)
  \/ AAcq(t) \/ AWaitPoll(t) \/ AWaitCancel(t) \/ APush(t) \/ AAdd(t)
  \/ StartClose(t) \/ CSem(t) \/ CSsem(t) \/ CClear(t)

Next == (\E t \in Tasks : Step(t)) \/ DropPool
Spec == Init /\ [][Next]_vars

\* liveness: every task eventually takes the steps of the operation it is in, and gives back what it holds
Progress(t) ==
  \/ GAcq(t) \/ GWaitPoll(t) \/ GPop(t) \/ GClosed(t) \/ Tk(t) \/ DPush(t) \/ DAdd(t) \/ DClean(t)
  \/ AAcq(t) \/ AWaitPoll(t) \/ APush(t) \/ AAdd(t) \/ CSem(t) \/ CSsem(t) \/ CClear(t)
FairSpec == Spec /\ \A t \in Tasks : WF_vars(Progress(t)) /\ \A o \in Objs : WF_vars(StartReturn(t, o))

SiteOf(l) ==
  CASE l = "g_acq" -> "u.get.acquire" [] l = "g_pop" -> "u.get.pop" [] l = "g_closed" -> "u.get.closed"
    [] l = "tk" -> "u.take" [] l = "d_push" -> "u.drop.push" [] l = "d_add" -> "u.drop.add"
    [] l = "d_clean" -> "u.drop.clean" [] l = "a_acq" -> "u.add.acquire" [] l = "a_push" -> "u.add.push"
    [] l = "a_add" -> "u.add.add" [] l = "a_clean" -> "u.add.clean" [] l = "c_sem" -> "u.close.sem"
    [] l = "c_ssem" -> "u.close.size_sem" [] l = "c_clear" -> "u.close.clear"
    [] OTHER -> l

----------------------------------------------------------------------------
(* Properties                                                              *)

Out == UNION {held[t] : t \in Tasks}
InHand == {obj[t] : t \in Tasks} \ {NoObj}
InQueue == SeqSet(queue)
Blocked == {t \in Tasks : pc[t] = "g_wait" /\ t \notin sem.h /\ ~sem.c}
BlockedAdd == {t \in Tasks : pc[t] = "a_wait" /\ t \notin ssem.h /\ ~ssem.c}
Quiescent == \A t \in Tasks : pc[t] = "idle" \/ t \in Blocked \/ t \in BlockedAdd
AtRest == \A t \in Tasks : pc[t] = "idle"

TypeOK == /\ sem.p \in Nat /\ ssem.p \in Nat /\ size \in Int /\ avail \in Int
          /\ \A t \in Tasks : res[t] \in {"none", "ok", "timeout", "closed", "no_runtime", "cancelled"}

\* C05: every object is in exactly one place (no duplicates in the queue either)
Inv_C05_places ==
  /\ \A o \in Objs : Cardinality({p \in {"q", "held", "hand", "ext", "dead"} :
         CASE p = "q" -> o \in InQueue [] p = "held" -> o \in Out [] p = "hand" -> o \in InHand
           [] p = "ext" -> o \in ext [] p = "dead" -> o \in dead}) = 1
  /\ Cardinality(InQueue) = Len(queue)
  /\ \A t, u \in Tasks : t # u => held[t] \cap held[u] = {}
  /\ \A t, u \in Tasks : (t # u /\ obj[t] # NoObj) => obj[t] # obj[u]
\* objects are only ever dropped by the pool once it has been closed (or is gone)
Inv_C05_nodrop == (dead \ cdrop) # {} => (sem.c \/ poolGone)
\* objects inside the pool: queued, checked out, or being returned / added past the slot
InPool == Len(queue) + Cardinality(Out) + Cardinality({t \in Tasks : pc[t] \in {"d_push", "tk", "a_push"}})
Inv_C05_max == InPool <= MaxSize
\* a refused try_add means the pool was full; a blocked add() means it is full
Inv_C05_full == (Quiescent /\ BlockedAdd # {} /\ ~poolGone) => InPool = MaxSize
Inv_C05_getters == (Quiescent /\ Blocked # {} /\ ~poolGone) => queue = <<>>
Inv_C05_status == (Quiescent /\ ~poolGone) =>
  /\ size = Len(queue) + Cardinality(Out)
  /\ (IF avail > 0 THEN avail ELSE 0) = Len(queue)
  /\ (IF avail < 0 THEN 0 - avail ELSE 0) = Cardinality(Blocked)
Step_C05_tryadd == \A t \in Tasks : (pc[t] = "a_acq" /\ pc'[t] = "idle" /\ res'[t] = "timeout") => ssem.p = 0
Act_C05_tryadd == [][Step_C05_tryadd]_vars

\* C05 (liveness): a get() that is waiting is completed - with an object as soon as one comes back,
\* or with an error - unless no object can come back: nothing is queued and whoever holds an object is
\* itself stuck waiting (or the objects have been taken out of the pool for good)
Starved == queue = <<>> /\ \A u \in Tasks : held[u] # {} => pc[u] \in {"g_wait", "a_wait"}
Live_C05_get == \A t \in Tasks : (pc[t] = "g_wait") ~> (pc[t] # "g_wait" \/ Starved)
\* an add() that is waiting for a free slot is completed once a slot is given up (take / remove) or the pool is closed
Live_C05_add == \A t \in Tasks : (pc[t] = "a_wait" /\ (t \in ssem.h \/ ssem.c)) ~> (pc[t] # "a_wait")

\* C12
Inv_C12_nounderflow == size >= 0
Inv_C12_final == closeRet =>
  /\ sem.c /\ ssem.c
  /\ (Quiescent => queue = <<>>)
  /\ Blocked = {} /\ BlockedAdd = {}
Inv_C12_late == \A t \in Tasks : (late[t] /\ pc[t] = "idle") => res[t] \in {"closed", "cancelled", "none", "no_runtime"}
Step_C12_closed == (sem.c => sem'.c) /\ (ssem.c => ssem'.c)
Act_C12_closed == [][Step_C12_closed]_vars
=============================================================================
