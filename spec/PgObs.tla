-------------------------------- MODULE PgObs --------------------------------
(***************************************************************************)
(* Observation-only monitor for C16: what the scripted PostgreSQL server    *)
(* and the harness's own bookkeeping saw of the real deadpool-postgres pool. *)
(***************************************************************************)
EXTENDS Integers, Sequences, FiniteSets, TLC, Json, IOUtils

Rec == ndJsonDeserialize(IOEnv.OBS)
VARIABLE l
vars == <<l>>

\* a client whose connection has closed is never handed out, nor one whose recycle check the
\* (scripted) server answered with an error or by hanging up: a failed check discards the client
P16a(e) == e.closed_handout = 0 /\ e.failed_handout = 0
\* every recycle check is exactly the documented query of the recycling method (none for Fast)
P16b(e) == e.bad_q = 0 /\ ((e.fast /\ e.k # "stress") => e.nqueries = 0)
\* prepare_[typed_]cached: a hit causes no round trip; a miss one Parse on that connection for
\* exactly that text and those parameter types; the statement has those parameter types
P16c(e) == e.bad_prepare = 0
\* size() = number of cached keys; clear()/remove() reach the pool's clients and no others
P16d(e) == e.bad_size = 0
\* the registry holds exactly the caches of the clients the pool owns (attached at create, detached
\* whenever the pool lets go of a client)
P16f(e) == /\ (e.k = "step" => e.reg_n = e.size)
           \* ... also when every client is taken at the same moment (second half of the probe)
           /\ (e.k = "probe2" => (e.reg_n = 0 /\ e.size = 0))
           \* ... and of a larger pool every other client (the rest stays checked out and registered)
           /\ (e.k = "stress" => e.reg_n = e.size)
\* discarded clients are replaced, taken ones free their slot
P16e(e) == e.size <= e.max /\ (e.k = "probe" => (e.probe_got = e.max /\ e.size = e.max))

Names == {"P16a", "P16b", "P16c", "P16d", "P16e", "P16f"}
StateViol(e) == {n \in Names : ~ CASE n = "P16a" -> P16a(e) [] n = "P16b" -> P16b(e) [] n = "P16c" -> P16c(e)
                                     [] n = "P16d" -> P16d(e) [] n = "P16e" -> P16e(e) [] n = "P16f" -> P16f(e)}
Init == l = 0
Next ==
  /\ l < Len(Rec)
  /\ l' = l + 1
  /\ LET v == StateViol(Rec[l + 1]) IN v # {} => PrintT(<<"VIOL", Rec[l + 1].run, Rec[l + 1].i, v>>)
Spec == Init /\ [][Next]_vars
Consumed == TLCGet("stats").diameter - 1 = Len(Rec)
=============================================================================
