---------------------------- MODULE SyncWrapper ----------------------------
(***************************************************************************)
(* deadpool_sync::SyncWrapper: an Arc<Mutex<Option<T>>> shared by the       *)
(* wrapper (async side), by interact() closures running as jobs on the      *)
(* runtime's blocking pool, and by the background job that destroys the     *)
(* value when the wrapper is dropped.                                       *)
(*                                                                         *)
(* Blocking pool: FIFO job queue, at most K jobs occupy a thread; a job     *)
(* that was spawned always runs (dropping the JoinHandle / the interact()   *)
(* future does not abort it).  Pool-internal steps (a free thread picks a   *)
(* job, a job gets the mutex) are not controllable from outside, so the     *)
(* spec gives them priority over the owner's steps: the harness lets the    *)
(* real pool settle after every owner step, which yields exactly these      *)
(* behaviours.  How long a closure runs IS controlled (closures are gated). *)
(***************************************************************************)
EXTENDS Integers, Sequences, FiniteSets, TLC

CONSTANTS
  K,            \* max_blocking_threads
  NInteract,    \* interact() calls per history
  MaxPending,   \* interact() futures the owner keeps alive at the same time (join!)
  AllowPanic, AllowCancel

Jobs == 1..(NInteract + 1)        \* job NInteract + 1 is the drop job
DropJob == NInteract + 1

VARIABLES
  wrapper,     \* "none" | "alive" | "dropped"
  value,       \* "absent" | "present" | "gone"
  holder,      \* job holding the mutex (0 = free)
  poisoned,
  queue,       \* jobs spawned, not yet on a thread
  js,          \* per job: "none" | "queued" | "started" (on a thread, wants the mutex) | "closure" | "done"
  fut,         \* per interact call: "none" | "pending" | "cancelled" | "ok" | "panic" | "aborted"
  dtor,        \* how often the value's destructor has run
  nextI

vars == <<wrapper, value, holder, poisoned, queue, js, fut, dtor, nextI>>

Init ==
  /\ wrapper = "none" /\ value = "absent" /\ holder = 0 /\ poisoned = FALSE
  /\ queue = <<>> /\ js = [j \in Jobs |-> "none"] /\ fut = [i \in 1..NInteract |-> "none"]
  /\ dtor = 0 /\ nextI = 1

OnThread == {j \in Jobs : js[j] \in {"started", "closure"}}

\* --- blocking pool (internal, eager) -------------------------------------------
\* a free thread takes the oldest job
StartJob(j) ==
  /\ queue # <<>> /\ Head(queue) = j /\ Cardinality(OnThread) < K
  /\ queue' = Tail(queue) /\ js' = [js EXCEPT ![j] = "started"]
  /\ UNCHANGED <<wrapper, value, holder, poisoned, fut, dtor, nextI>>

Settle(i, r) == fut' = [fut EXCEPT ![i] = IF @ = "pending" THEN r ELSE @]

\* the job gets the mutex
Lock(j) ==
  /\ js[j] = "started" /\ holder = 0
  /\ IF j = DropJob
     THEN \* lock (also when poisoned); take the value; it is destroyed here, on this thread
          /\ dtor' = IF value = "present" THEN dtor + 1 ELSE dtor
          /\ value' = IF value = "present" THEN "gone" ELSE value
          /\ js' = [js EXCEPT ![j] = "done"] /\ UNCHANGED <<holder, fut>>
     ELSE IF poisoned
     THEN \* arc.lock().unwrap() panics: reported as a panic of the job
          /\ js' = [js EXCEPT ![j] = "done"] /\ Settle(j, "panic") /\ UNCHANGED <<holder, value, dtor>>
     ELSE IF value # "present"
     THEN /\ js' = [js EXCEPT ![j] = "done"] /\ Settle(j, "aborted") /\ UNCHANGED <<holder, value, dtor>>
     ELSE /\ holder' = j /\ js' = [js EXCEPT ![j] = "closure"] /\ UNCHANGED <<value, dtor, fut>>
  /\ UNCHANGED <<wrapper, poisoned, queue, nextI>>

Internal == \E j \in Jobs : StartJob(j) \/ Lock(j)
InternalEnabled == \E j \in Jobs : ENABLED StartJob(j) \/ ENABLED Lock(j)

\* --- owner (async side) and environment --------------------------------------------
New ==
  /\ wrapper = "none" /\ ~InternalEnabled
  /\ wrapper' = "alive" /\ value' = "present"
  /\ UNCHANGED <<holder, poisoned, queue, js, fut, dtor, nextI>>

NoPending == \A i \in 1..NInteract : fut[i] # "pending"
Pending == {i \in 1..NInteract : fut[i] = "pending"}

\* interact() is called and polled once: the job is spawned
Interact(i) ==
  /\ wrapper = "alive" /\ ~InternalEnabled /\ i = nextI /\ i <= NInteract /\ Cardinality(Pending) < MaxPending
  /\ fut' = [fut EXCEPT ![i] = "pending"] /\ js' = [js EXCEPT ![i] = "queued"]
  /\ queue' = Append(queue, i) /\ nextI' = nextI + 1
  /\ UNCHANGED <<wrapper, value, holder, poisoned, dtor>>

\* the interact() future is dropped (before or while its closure runs)
Cancel(i) ==
  /\ AllowCancel /\ ~InternalEnabled /\ fut[i] = "pending"
  /\ fut' = [fut EXCEPT ![i] = "cancelled"]
  /\ UNCHANGED <<wrapper, value, holder, poisoned, queue, js, dtor, nextI>>

\* the closure of job j returns, or panics (which poisons the mutex)
Release(j, out) ==
  /\ ~InternalEnabled /\ js[j] = "closure" /\ out \in ({"ok"} \cup (IF AllowPanic THEN {"panic"} ELSE {}))
  /\ holder' = 0 /\ js' = [js EXCEPT ![j] = "done"]
  /\ poisoned' = (poisoned \/ out = "panic")
  /\ Settle(j, out)
  /\ UNCHANGED <<wrapper, value, queue, dtor, nextI>>

\* the wrapper is dropped: the drop job is spawned in the background
DropWrapper ==
  /\ wrapper = "alive" /\ ~InternalEnabled /\ NoPending
  /\ wrapper' = "dropped" /\ js' = [js EXCEPT ![DropJob] = "queued"] /\ queue' = Append(queue, DropJob)
  /\ UNCHANGED <<value, holder, poisoned, fut, dtor, nextI>>

Next ==
  \/ \E j \in Jobs : StartJob(j) \/ Lock(j)
  \/ New \/ DropWrapper
  \/ \E i \in 1..NInteract : Interact(i) \/ Cancel(i)
  \/ \E j \in 1..NInteract : \E out \in {"ok", "panic"} : Release(j, out)

Spec == Init /\ [][Next]_vars
FairSpec == Spec /\ WF_vars(Internal) /\ \A j \in 1..NInteract : WF_vars(Release(j, "ok"))

----------------------------------------------------------------------------
TypeOK == dtor \in 0..2 /\ holder \in 0..(NInteract + 1)

\* the destructor runs at most once ...
Inv_DtorOnce == dtor <= 1
\* ... exactly once when everything has finished after the wrapper was dropped
AllDone == \A j \in Jobs : js[j] \in {"none", "done"}
Inv_DtorEventually == (wrapper = "dropped" /\ AllDone) => (dtor = 1 /\ value = "gone")
\* ... and never while a closure is using the value
Act_DtorAfterClosures == [][dtor' > dtor => \A j \in Jobs : js[j] # "closure"]_vars
\* the value is only used while it exists
Inv_UseWhilePresent == \A j \in Jobs : js[j] = "closure" => (value = "present" /\ holder = j)
\* a panicking closure is reported as Panic and poisons the wrapper for good
Act_PoisonSticks == [][poisoned => poisoned']_vars
Inv_PanicReported == \A i \in 1..NInteract : fut[i] = "panic" => poisoned
\* Aborted is never seen by a caller that did not cancel: the wrapper cannot be dropped
\* while an interact() future is alive
Inv_NoAborted == \A i \in 1..NInteract : fut[i] # "aborted"
Live_Destroyed == (wrapper = "dropped") ~> (dtor = 1)
=============================================================================
