--------------------------- MODULE UnmanagedTrace ---------------------------
(***************************************************************************)
(* Direction B for the unmanaged pool: executions recorded from the REAL   *)
(* pool under seeded random schedules (more tasks, objects and operations   *)
(* than TLC can exhaust) validated against UnmanagedPool.tla.  Every event  *)
(* names the spec action it corresponds to with its arguments and carries   *)
(* the real pool's state after the step; it is accepted iff it is that      *)
(* action of the specification AND ends in exactly the logged state.  All   *)
(* invariants of UnmanagedPool are invariants of this spec too, so they are *)
(* evaluated on every state of the observed behaviour.                      *)
(***************************************************************************)
EXTENDS UnmanagedPool, Json, IOUtils

Rec == ndJsonDeserialize(IOEnv.TRACE)

VARIABLES l, skipping
tvars == <<vars, l, skipping>>

ToSet(s) == {s[i] : i \in 1..Len(s)}
AtOf(p) == IF p \in {"g_wait", "a_wait"} THEN "wait" ELSE SiteOf(p)

Matches(e) ==
  /\ poolGone' = e.gone
  /\ ~e.gone => /\ sem'.p = e.permits /\ ssem'.p = e.spermits /\ sem'.c = e.closed /\ ssem'.c = e.sclosed
                /\ size' = e.size /\ avail' = e.avail /\ Len(queue') = e.qlen
  /\ \A t \in Tasks : AtOf(pc'[t]) = e.at[t] /\ held'[t] = ToSet(e.held[t])
  /\ ext' = ToSet(e.ext) /\ dead' = ToSet(e.dead)
  /\ (e.done => res'[e.task] = e.result)

Apply(e) ==
  LET t == e.task
      a == e.act
      x == e.x IN
  CASE a = "StartGet" -> StartGet(t, x[1], x[2])
    [] a = "GAcq" -> GAcq(t) [] a = "GWaitPoll" -> GWaitPoll(t) [] a = "GWaitCancel" -> GWaitCancel(t)
    [] a = "GWaitExpire" -> GWaitExpire(t) [] a = "GPop" -> GPop(t) [] a = "GClosed" -> GClosed(t)
    [] a = "StartTake" -> StartTake(t, x[1]) [] a = "Tk" -> Tk(t)
    [] a = "StartReturn" -> StartReturn(t, x[1]) [] a = "DPush" -> DPush(t) [] a = "DAdd" -> DAdd(t) [] a = "DClean" -> DClean(t)
    [] a = "StartAdd" -> StartAdd(t, x[1], x[2]) [] a = "AAcq" -> AAcq(t) [] a = "AWaitPoll" -> AWaitPoll(t)
    [] a = "AWaitCancel" -> AWaitCancel(t) [] a = "APush" -> APush(t) [] a = "AAdd" -> AAdd(t)
    [] a = "StartClose" -> StartClose(t) [] a = "CSem" -> CSem(t) [] a = "CSsem" -> CSsem(t) [] a = "CClear" -> CClear(t)
    [] a = "DropPool" -> DropPool
    [] OTHER -> FALSE

ResetAll ==
  /\ sem' = NewSem(Preload) /\ ssem' = NewSem(MaxSize - Preload)
  /\ queue' = [i \in 1..Preload |-> i] /\ size' = Preload /\ avail' = Preload
  /\ pc' = [t \in Tasks |-> "idle"] /\ obj' = [t \in Tasks |-> NoObj]
  /\ mode' = [t \in Tasks |-> "try"] /\ rm' = [t \in Tasks |-> FALSE] /\ res' = [t \in Tasks |-> "none"]
  /\ held' = [t \in Tasks |-> {}] /\ ext' = Objs \ (1..Preload) /\ dead' = {} /\ cdrop' = {}
  /\ budget' = Budget /\ closeRet' = FALSE /\ poolGone' = FALSE /\ late' = [t \in Tasks |-> FALSE]

TraceInit == Init /\ l = 1 /\ skipping = FALSE
EvStep(e) == Apply(e) /\ Matches(e)
TraceNext ==
  /\ l <= Len(Rec)
  /\ l' = l + 1
  /\ LET e == Rec[l] IN
     IF e.act = "Reset" THEN ResetAll /\ skipping' = FALSE
     ELSE IF skipping THEN UNCHANGED <<vars, skipping>>
     ELSE \/ EvStep(e) /\ skipping' = FALSE
          \/ /\ ~ENABLED EvStep(e)
             /\ PrintT(<<"REJECTED", e.run, e.seq, e.task, e.act>>)
             /\ UNCHANGED vars /\ skipping' = TRUE

TraceSpec == TraceInit /\ [][TraceNext]_tvars
NotReset == l <= Len(Rec) /\ Rec[l].act # "Reset"
TAct_C05_tryadd == [][NotReset => Step_C05_tryadd]_tvars
TAct_C12_closed == [][NotReset => Step_C12_closed]_tvars
TraceAccepted == TLCGet("stats").diameter - 1 = Len(Rec)
=============================================================================
