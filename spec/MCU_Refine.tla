---------------------------- MODULE MCU_Refine ----------------------------
(***************************************************************************)
(* UnmanagedPool.tla (thread level, without close / drop of the pool)       *)
(* refines the counter abstraction UnmanagedCounting.tla under the counting *)
(* map below: TLC checks that every step of the detailed spec is a step of  *)
(* the abstraction or leaves all counters unchanged.  Together with the     *)
(* inductive proof of UnmanagedCounting!IndInv (Apalache) this lifts the    *)
(* design-level core of C05 from the bounded configurations to any number   *)
(* of tasks, any max_size and any number of preloaded objects.              *)
(***************************************************************************)
EXTENDS UnmanagedPool

N(S) == Cardinality({t \in Tasks : pc[t] \in S})
NOut == Cardinality(UNION {held[t] : t \in Tasks})
C == INSTANCE UnmanagedCounting WITH
  Max <- MaxSize, Pre <- Preload,
  p <- sem.p, gw <- Len(sem.q), gh <- Cardinality(sem.h),
  sp <- ssem.p, aw <- Len(ssem.q), ah <- Cardinality(ssem.h),
  gpop <- N({"g_pop"}), q <- Len(queue), out <- NOut, tk <- N({"tk"}),
  dpush <- N({"d_push"}), dadd <- N({"d_add"}), apush <- N({"a_push"}), aadd <- N({"a_add"}),
  size <- size, avail <- avail

cvars == <<sem.p, Len(sem.q), Cardinality(sem.h), ssem.p, Len(ssem.q), Cardinality(ssem.h),
           N({"g_pop"}), Len(queue), NOut, N({"tk"}), N({"d_push"}), N({"d_add"}), N({"a_push"}), N({"a_add"}), size, avail>>
Refines == C!Init /\ [][C!Next]_cvars
RefInv == C!IndInv
=============================================================================
