------------------------------- MODULE SyncObs -------------------------------
(***************************************************************************)
(* Observation-only monitor for SyncWrapper (C14): evaluates the property   *)
(* predicates on the log of what the real wrapper did (thread identities,   *)
(* order of closure / destructor events, results seen by the caller).       *)
(***************************************************************************)
EXTENDS Integers, Sequences, FiniteSets, TLC, Json, IOUtils

Rec == ndJsonDeserialize(IOEnv.OBS)
VARIABLE l
vars == <<l>>

\* creation, closures and destruction never run on the thread that awaited / dropped the wrapper
S14a(e) == ~e.ctor_on_async /\ ~e.closure_on_async /\ ~e.dtor_on_async
\* the destructor runs at most once, and exactly once after the wrapper was dropped and the pool settled
S14b(e) == e.dtor <= 1 /\ (e.k = "end" => e.dtor = 1)
\* ... never while a closure is still using the value
S14c(e) == ~e.dtor_during_closure
\* a panicking closure is reported as Panic; the wrapper reports poisoning from then on
S14d(e) == /\ ((e.settled # "-" /\ e.stable) => e.settled = e.expect_settled)
           /\ ((e.paniced /\ e.alive /\ e.stable /\ e.k = "step") => e.poisoned)
           \* ... also while a later job is failing on the poisoned mutex (sampled inside that job's panic)
           /\ e.busy_not_poisoned = 0
\* closures only ever run while the value exists
S14e(e) == ~e.closure_after_dtor

Names == {"S14a", "S14b", "S14c", "S14d", "S14e"}
StateViol(e) == {n \in Names : ~ CASE n = "S14a" -> S14a(e) [] n = "S14b" -> S14b(e) [] n = "S14c" -> S14c(e)
                                     [] n = "S14d" -> S14d(e) [] n = "S14e" -> S14e(e)}
Init == l = 0
Next ==
  /\ l < Len(Rec)
  /\ l' = l + 1
  /\ LET v == StateViol(Rec[l + 1]) IN v # {} => PrintT(<<"VIOL", Rec[l + 1].run, Rec[l + 1].i, v>>)
Spec == Init /\ [][Next]_vars
Consumed == TLCGet("stats").diameter - 1 = Len(Rec)
=============================================================================
