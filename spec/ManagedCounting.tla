-------------------------- MODULE ManagedCounting --------------------------
(***************************************************************************)
(* Counter abstraction of the managed pool WITHOUT resize / close / retain: *)
(* one natural number per task location of ManagedPool.tla instead of one   *)
(* pc per task, so it speaks about ANY number of tasks and ANY max_size.    *)
(* (ManagedPool.tla refines it: MC_Refine.cfg lets TLC check that every     *)
(* step of the thread-level spec is a step of this one under the counting   *)
(* map.)  Its invariant IndInv is inductive and is discharged by Apalache   *)
(* (tools/apalache_counting.sh): Init => IndInv, IndInv /\ Next => IndInv', *)
(* IndInv => C01 /\ NeverStale /\ NoUnderflow - an unbounded argument for   *)
(* the design-level core of C01 / C02 (token conservation: no capacity is   *)
(* lost, no slot is double-booked, the admission check never has to refuse  *)
(* a permit holder while max_size is not being changed).                    *)
(***************************************************************************)
EXTENDS Integers

CONSTANT
  \* @type: Int;
  Max

VARIABLES
  \* @type: Int;
  permits,
  \* @type: Int;
  waiting,     \* queued waiters
  \* @type: Int;
  handed,      \* waiters that own a permit, not yet polled
  \* @type: Int;
  pre,         \* permit holders about to pop (g_pop)
  \* @type: Int;
  recycling,   \* idle object in hand, in the pre / recycle / post chain
  \* @type: Int;
  udrop,       \* object in hand, about to be discarded (u_drop)
  \* @type: Int;
  creating,    \* slot reserved, inside Manager::create
  \* @type: Int;
  csize,       \* created, reservation not yet turned into size (c_size)
  \* @type: Int;
  cunres,      \* creation failed, reservation not yet given back (c_unres)
  \* @type: Int;
  postc,       \* fresh object in hand, in the post_create chain
  \* @type: Int;
  done,        \* object verified, about to be handed out (g_exit, ok)
  \* @type: Int;
  exiting,     \* permit still held, nothing in hand (g_exit, error / cancel)
  \* @type: Int;
  out,         \* objects checked out (incl. return / take calls that have not reached their lock region)
  \* @type: Int;
  returning,   \* pushed back, permit not yet added (ret_add)
  \* @type: Int;
  tkadd,       \* taken, size decremented, permit not yet added (tk_add)
  \* @type: Int;
  idle,
  \* @type: Int;
  size,
  \* @type: Int;
  cr           \* Slots::creating

ConstInit == Max \in Nat

Init ==
  /\ permits = Max /\ waiting = 0 /\ handed = 0 /\ pre = 0 /\ recycling = 0 /\ udrop = 0 /\ creating = 0
  /\ csize = 0 /\ cunres = 0 /\ postc = 0 /\ done = 0 /\ exiting = 0 /\ out = 0 /\ returning = 0 /\ tkadd = 0
  /\ idle = 0 /\ size = 0 /\ cr = 0

\* add_permits(1): the head of the queue is served first
Release ==
  (IF waiting > 0 THEN waiting' = waiting - 1 /\ handed' = handed + 1 /\ permits' = permits
   ELSE permits' = permits + 1 /\ waiting' = waiting /\ handed' = handed)

Acquire == /\ permits > 0 /\ permits' = permits - 1 /\ pre' = pre + 1
           /\ UNCHANGED <<waiting, handed, recycling, udrop, creating, csize, cunres, postc, done, exiting, out, returning, tkadd, idle, size, cr>>
Enqueue == /\ permits = 0 /\ waiting' = waiting + 1
           /\ UNCHANGED <<permits, handed, pre, recycling, udrop, creating, csize, cunres, postc, done, exiting, out, returning, tkadd, idle, size, cr>>
PollHanded == /\ handed > 0 /\ handed' = handed - 1 /\ pre' = pre + 1
           /\ UNCHANGED <<permits, waiting, recycling, udrop, creating, csize, cunres, postc, done, exiting, out, returning, tkadd, idle, size, cr>>
\* a queued waiter gives up (cancel or wait timeout)
LeaveQueue == /\ waiting > 0 /\ waiting' = waiting - 1
           /\ UNCHANGED <<permits, handed, pre, recycling, udrop, creating, csize, cunres, postc, done, exiting, out, returning, tkadd, idle, size, cr>>
\* a waiter that already owns its permit gives up: tokio releases the permit again
LeaveHanded == /\ handed > 0
           /\ (IF waiting > 0 THEN waiting' = waiting - 1 /\ handed' = handed /\ permits' = permits
               ELSE permits' = permits + 1 /\ handed' = handed - 1 /\ waiting' = waiting)
           /\ UNCHANGED <<pre, recycling, udrop, creating, csize, cunres, postc, done, exiting, out, returning, tkadd, idle, size, cr>>
PopIdle == /\ pre > 0 /\ idle > 0 /\ pre' = pre - 1 /\ idle' = idle - 1 /\ recycling' = recycling + 1
           /\ UNCHANGED <<permits, waiting, handed, udrop, creating, csize, cunres, postc, done, exiting, out, returning, tkadd, size, cr>>
PopReserve == /\ pre > 0 /\ idle = 0 /\ size + cr < Max /\ pre' = pre - 1 /\ creating' = creating + 1 /\ cr' = cr + 1
           /\ UNCHANGED <<permits, waiting, handed, recycling, udrop, csize, cunres, postc, done, exiting, out, returning, tkadd, idle, size>>
\* the permit turns out to be stale: it is forgotten and the caller asks again (never happens
\* while max_size is constant - that is NeverStale)
PopStale == /\ pre > 0 /\ idle = 0 /\ size + cr >= Max /\ pre' = pre - 1
           /\ UNCHANGED <<permits, waiting, handed, recycling, udrop, creating, csize, cunres, postc, done, exiting, out, returning, tkadd, idle, size, cr>>
RecycleOk == /\ recycling > 0 /\ recycling' = recycling - 1 /\ done' = done + 1
           /\ UNCHANGED <<permits, waiting, handed, pre, udrop, creating, csize, cunres, postc, exiting, out, returning, tkadd, idle, size, cr>>
RecycleFail == /\ recycling > 0 /\ recycling' = recycling - 1 /\ udrop' = udrop + 1
           /\ UNCHANGED <<permits, waiting, handed, pre, creating, csize, cunres, postc, done, exiting, out, returning, tkadd, idle, size, cr>>
\* UnreadyObject::drop, then either the next loop iteration or the error / cancel exit
UDropRetry == /\ udrop > 0 /\ udrop' = udrop - 1 /\ size' = size - 1 /\ pre' = pre + 1
           /\ UNCHANGED <<permits, waiting, handed, recycling, creating, csize, cunres, postc, done, exiting, out, returning, tkadd, idle, cr>>
UDropExit == /\ udrop > 0 /\ udrop' = udrop - 1 /\ size' = size - 1 /\ exiting' = exiting + 1
           /\ UNCHANGED <<permits, waiting, handed, pre, recycling, creating, csize, cunres, postc, done, out, returning, tkadd, idle, cr>>
CreateOk == /\ creating > 0 /\ creating' = creating - 1 /\ csize' = csize + 1
           /\ UNCHANGED <<permits, waiting, handed, pre, recycling, udrop, cunres, postc, done, exiting, out, returning, tkadd, idle, size, cr>>
CreateFail == /\ creating > 0 /\ creating' = creating - 1 /\ cunres' = cunres + 1
           /\ UNCHANGED <<permits, waiting, handed, pre, recycling, udrop, csize, postc, done, exiting, out, returning, tkadd, idle, size, cr>>
CSizeHooks == /\ csize > 0 /\ csize' = csize - 1 /\ cr' = cr - 1 /\ size' = size + 1 /\ postc' = postc + 1
           /\ UNCHANGED <<permits, waiting, handed, pre, recycling, udrop, creating, cunres, done, exiting, out, returning, tkadd, idle>>
CSizeDone == /\ csize > 0 /\ csize' = csize - 1 /\ cr' = cr - 1 /\ size' = size + 1 /\ done' = done + 1
           /\ UNCHANGED <<permits, waiting, handed, pre, recycling, udrop, creating, cunres, postc, exiting, out, returning, tkadd, idle>>
CUnres == /\ cunres > 0 /\ cunres' = cunres - 1 /\ cr' = cr - 1 /\ exiting' = exiting + 1
           /\ UNCHANGED <<permits, waiting, handed, pre, recycling, udrop, creating, csize, postc, done, out, returning, tkadd, idle, size>>
PostcOk == /\ postc > 0 /\ postc' = postc - 1 /\ done' = done + 1
           /\ UNCHANGED <<permits, waiting, handed, pre, recycling, udrop, creating, csize, cunres, exiting, out, returning, tkadd, idle, size, cr>>
PostcFail == /\ postc > 0 /\ postc' = postc - 1 /\ udrop' = udrop + 1
           /\ UNCHANGED <<permits, waiting, handed, pre, recycling, creating, csize, cunres, done, exiting, out, returning, tkadd, idle, size, cr>>
HandOut == /\ done > 0 /\ done' = done - 1 /\ out' = out + 1
           /\ UNCHANGED <<permits, waiting, handed, pre, recycling, udrop, creating, csize, cunres, postc, exiting, returning, tkadd, idle, size, cr>>
ExitErr == /\ exiting > 0 /\ exiting' = exiting - 1 /\ Release
           /\ UNCHANGED <<pre, recycling, udrop, creating, csize, cunres, postc, done, out, returning, tkadd, idle, size, cr>>
ReturnPush == /\ out > 0 /\ size <= Max /\ out' = out - 1 /\ idle' = idle + 1 /\ returning' = returning + 1
           /\ UNCHANGED <<permits, waiting, handed, pre, recycling, udrop, creating, csize, cunres, postc, done, exiting, tkadd, size, cr>>
\* surplus on return (only after a shrink; never enabled here - part of NeverStale)
ReturnDiscard == /\ out > 0 /\ size > Max /\ out' = out - 1 /\ size' = size - 1
           /\ UNCHANGED <<permits, waiting, handed, pre, recycling, udrop, creating, csize, cunres, postc, done, exiting, returning, tkadd, idle, cr>>
ReturnAdd == /\ returning > 0 /\ returning' = returning - 1 /\ Release
           /\ UNCHANGED <<pre, recycling, udrop, creating, csize, cunres, postc, done, exiting, out, tkadd, idle, size, cr>>
TakeLock == /\ out > 0 /\ size <= Max /\ out' = out - 1 /\ size' = size - 1 /\ tkadd' = tkadd + 1
           /\ UNCHANGED <<permits, waiting, handed, pre, recycling, udrop, creating, csize, cunres, postc, done, exiting, returning, idle, cr>>
TakeAdd == /\ tkadd > 0 /\ tkadd' = tkadd - 1 /\ Release
           /\ UNCHANGED <<pre, recycling, udrop, creating, csize, cunres, postc, done, exiting, out, returning, idle, size, cr>>

Next == \/ Acquire \/ Enqueue \/ PollHanded \/ LeaveQueue \/ LeaveHanded \/ PopIdle \/ PopReserve \/ PopStale
        \/ RecycleOk \/ RecycleFail \/ UDropRetry \/ UDropExit \/ CreateOk \/ CreateFail \/ CSizeHooks \/ CSizeDone \/ CUnres
        \/ PostcOk \/ PostcFail \/ HandOut \/ ExitErr \/ ReturnPush \/ ReturnDiscard \/ ReturnAdd \/ TakeLock \/ TakeAdd

NonNeg == /\ permits >= 0 /\ waiting >= 0 /\ handed >= 0 /\ pre >= 0 /\ recycling >= 0 /\ udrop >= 0 /\ creating >= 0
          /\ csize >= 0 /\ cunres >= 0 /\ postc >= 0 /\ done >= 0 /\ exiting >= 0 /\ out >= 0 /\ returning >= 0 /\ tkadd >= 0
          /\ idle >= 0 /\ size >= 0 /\ cr >= 0
\* every permit is somewhere: in the counter, assigned to a waiter, held by a get() in progress,
\* backing a checked-out object, or on its way back
Tokens == permits + handed + pre + recycling + udrop + creating + csize + cunres + postc + done + exiting + out + returning + tkadd
IndInv ==
  /\ Max >= 0 /\ NonNeg
  /\ Tokens = Max
  /\ size = idle + recycling + udrop + postc + done + out
  /\ cr = creating + csize + cunres
  /\ idle <= permits + handed + pre + returning
  /\ (waiting > 0 => permits = 0)

\* --- the properties (each implied by IndInv) ----------------------------------------
\* C01: objects that exist or are being created never exceed max_size
C01 == idle + recycling + udrop + creating + csize + postc + done + out <= Max
\* a permit holder that finds no idle object can always be admitted: no capacity is lost to the
\* admission check and nobody waits although a slot is free
NeverStale == (pre > 0 /\ idle = 0) => size + cr < Max
NoUnderflow == size >= 0 /\ cr >= 0
\* at rest (nobody inside the pool) every permit is free or backs an idle object's slot: the pool can
\* hand out exactly Max objects
AtRestFull == (handed + pre + recycling + udrop + creating + csize + cunres + postc + done + exiting + out + returning + tkadd = 0)
                => (permits = Max /\ size = idle)

IndInit ==
  /\ permits \in Int /\ waiting \in Int /\ handed \in Int /\ pre \in Int /\ recycling \in Int /\ udrop \in Int
  /\ creating \in Int /\ csize \in Int /\ cunres \in Int /\ postc \in Int /\ done \in Int /\ exiting \in Int
  /\ out \in Int /\ returning \in Int /\ tkadd \in Int /\ idle \in Int /\ size \in Int /\ cr \in Int
  /\ IndInv
=============================================================================
