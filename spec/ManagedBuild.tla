---------------------------- MODULE ManagedBuild ----------------------------
(***************************************************************************)
(* PoolBuilder::build() as a decision table (C10: "any non-zero timeout     *)
(* used without a runtime yields NoRuntimeSpecified from build() for       *)
(* configured timeouts"), plus what the first get() of the built pool       *)
(* reports.  There is no behaviour: every initial state is one case        *)
(* <<input, expected output>>; TLC enumerates them and the harness calls    *)
(* the real builder for each (harness/mh, `cases build`).                   *)
(***************************************************************************)
EXTENDS Integers, Sequences, TLC, Json

TO == {"none", "zero", "finite"}
VARIABLES wait, create, recycle, runtime
vars == <<wait, create, recycle, runtime>>

Init == wait \in TO /\ create \in TO /\ recycle \in TO /\ runtime \in BOOLEAN
Next == UNCHANGED vars
Spec == Init /\ [][Next]_vars

AnySet == wait # "none" \/ create # "none" \/ recycle # "none"
\* the statement speaks of non-zero timeouts; the code (and this table) refuse zero ones too
ExpectBuild == IF AnySet /\ ~runtime THEN "no_runtime" ELSE "ok"
\* first get() on the built pool with a manager that creates at once
ExpectGet == IF ExpectBuild = "ok" THEN "ok" ELSE "-"

Case == [wait |-> wait, create |-> create, recycle |-> recycle, runtime |-> runtime,
         build |-> ExpectBuild, get |-> ExpectGet]
Emit == PrintT(<<"CASE", ToJson(Case)>>)
\* the table is total: every input has exactly one expected outcome
Total == ExpectBuild \in {"ok", "no_runtime"}
=============================================================================
