------------------------- MODULE UnmanagedCounting -------------------------
(***************************************************************************)
(* Counter abstraction of deadpool::unmanaged::Pool WITHOUT close(): one    *)
(* natural number per task location of UnmanagedPool.tla instead of one pc  *)
(* per task, so it speaks about ANY number of tasks, ANY max_size and ANY   *)
(* number of preloaded objects.  UnmanagedPool.tla refines it (MCU_Refine:  *)
(* TLC checks that every step of the thread-level spec is a step of this    *)
(* one under the counting map); its invariant IndInv is inductive and is    *)
(* discharged by Apalache (tools/apalache_counting.sh): an unbounded        *)
(* argument for the design-level core of C05 - the pool never contains more *)
(* than max_size objects, a caller that got a permit always finds an object *)
(* (get never pops an empty queue while the pool is open), a refused        *)
(* try_add means the pool is full, and at rest status() tells the truth.    *)
(***************************************************************************)
EXTENDS Integers

CONSTANTS
  \* @type: Int;
  Max,
  \* @type: Int;
  Pre

VARIABLES
  \* @type: Int;
  p,        \* permits of the object semaphore
  \* @type: Int;
  gw,       \* get callers queued on it
  \* @type: Int;
  gh,       \* get callers that own a permit, not yet polled
  \* @type: Int;
  sp,       \* permits of the size semaphore
  \* @type: Int;
  aw,       \* add callers queued on it
  \* @type: Int;
  ah,       \* add callers that own a size permit, not yet polled
  \* @type: Int;
  gpop,     \* permit taken, about to pop (g_pop)
  \* @type: Int;
  q,        \* objects in the queue
  \* @type: Int;
  out,      \* objects checked out
  \* @type: Int;
  tk,       \* object in hand, about to leave the pool (take / second half of remove)
  \* @type: Int;
  dpush,    \* object being returned, not yet pushed (d_push)
  \* @type: Int;
  dadd,     \* pushed back, permit not yet added (d_add)
  \* @type: Int;
  apush,    \* size permit taken, object not yet pushed (a_push)
  \* @type: Int;
  aadd,     \* added, permit not yet added (a_add)
  \* @type: Int;
  size,
  \* @type: Int;
  avail

ConstInit == Max \in Nat /\ Pre \in Nat /\ Pre <= Max

Init ==
  /\ p = Pre /\ gw = 0 /\ gh = 0 /\ sp = Max - Pre /\ aw = 0 /\ ah = 0 /\ gpop = 0 /\ q = Pre /\ out = 0
  /\ tk = 0 /\ dpush = 0 /\ dadd = 0 /\ apush = 0 /\ aadd = 0 /\ size = Pre /\ avail = Pre

\* add_permits(1) on the object / size semaphore: the head of the queue is served first
ReleaseG == IF gw > 0 THEN gw' = gw - 1 /\ gh' = gh + 1 /\ p' = p ELSE p' = p + 1 /\ gw' = gw /\ gh' = gh
ReleaseS == IF aw > 0 THEN aw' = aw - 1 /\ ah' = ah + 1 /\ sp' = sp ELSE sp' = sp + 1 /\ aw' = aw /\ ah' = ah

GAcquire == /\ p > 0 /\ p' = p - 1 /\ avail' = avail - 1 /\ gpop' = gpop + 1
            /\ UNCHANGED <<gw, gh, sp, aw, ah, q, out, tk, dpush, dadd, apush, aadd, size>>
GEnqueue == /\ p = 0 /\ gw' = gw + 1 /\ avail' = avail - 1
            /\ UNCHANGED <<p, gh, sp, aw, ah, gpop, q, out, tk, dpush, dadd, apush, aadd, size>>
GPoll == /\ gh > 0 /\ gh' = gh - 1 /\ gpop' = gpop + 1
         /\ UNCHANGED <<p, gw, sp, aw, ah, q, out, tk, dpush, dadd, apush, aadd, size, avail>>
\* a queued get gives up (cancel / timeout); one that already owns its permit hands it on
GLeaveQueue == /\ gw > 0 /\ gw' = gw - 1 /\ avail' = avail + 1
               /\ UNCHANGED <<p, gh, sp, aw, ah, gpop, q, out, tk, dpush, dadd, apush, aadd, size>>
GLeaveHanded == /\ gh > 0 /\ avail' = avail + 1
                /\ (IF gw > 0 THEN gw' = gw - 1 /\ gh' = gh /\ p' = p ELSE p' = p + 1 /\ gh' = gh - 1 /\ gw' = gw)
                /\ UNCHANGED <<sp, aw, ah, gpop, q, out, tk, dpush, dadd, apush, aadd, size>>
GPopGet == /\ gpop > 0 /\ q > 0 /\ gpop' = gpop - 1 /\ q' = q - 1 /\ out' = out + 1
           /\ UNCHANGED <<p, gw, gh, sp, aw, ah, tk, dpush, dadd, apush, aadd, size, avail>>
GPopRemove == /\ gpop > 0 /\ q > 0 /\ gpop' = gpop - 1 /\ q' = q - 1 /\ tk' = tk + 1
              /\ UNCHANGED <<p, gw, gh, sp, aw, ah, out, dpush, dadd, apush, aadd, size, avail>>
\* the permit holder finds the queue empty: only possible after close() - never enabled here (NoEmptyPop)
GPopEmpty == /\ gpop > 0 /\ q = 0 /\ gpop' = gpop - 1 /\ avail' = avail + 1 /\ ReleaseG
             /\ UNCHANGED <<sp, aw, ah, q, out, tk, dpush, dadd, apush, aadd, size>>
StartTake == /\ out > 0 /\ out' = out - 1 /\ tk' = tk + 1
             /\ UNCHANGED <<p, gw, gh, sp, aw, ah, gpop, q, dpush, dadd, apush, aadd, size, avail>>
Take == /\ tk > 0 /\ tk' = tk - 1 /\ size' = size - 1 /\ ReleaseS
        /\ UNCHANGED <<p, gw, gh, gpop, q, out, dpush, dadd, apush, aadd, avail>>
StartReturn == /\ out > 0 /\ out' = out - 1 /\ dpush' = dpush + 1
               /\ UNCHANGED <<p, gw, gh, sp, aw, ah, gpop, q, tk, dadd, apush, aadd, size, avail>>
DPush == /\ dpush > 0 /\ dpush' = dpush - 1 /\ q' = q + 1 /\ avail' = avail + 1 /\ dadd' = dadd + 1
         /\ UNCHANGED <<p, gw, gh, sp, aw, ah, gpop, out, tk, apush, aadd, size>>
DAdd == /\ dadd > 0 /\ dadd' = dadd - 1 /\ ReleaseG
        /\ UNCHANGED <<sp, aw, ah, gpop, q, out, tk, dpush, apush, aadd, size, avail>>
AAcquire == /\ sp > 0 /\ sp' = sp - 1 /\ apush' = apush + 1
            /\ UNCHANGED <<p, gw, gh, aw, ah, gpop, q, out, tk, dpush, dadd, aadd, size, avail>>
AEnqueue == /\ sp = 0 /\ aw' = aw + 1
            /\ UNCHANGED <<p, gw, gh, sp, ah, gpop, q, out, tk, dpush, dadd, apush, aadd, size, avail>>
APoll == /\ ah > 0 /\ ah' = ah - 1 /\ apush' = apush + 1
         /\ UNCHANGED <<p, gw, gh, sp, aw, gpop, q, out, tk, dpush, dadd, aadd, size, avail>>
ALeaveQueue == /\ aw > 0 /\ aw' = aw - 1
               /\ UNCHANGED <<p, gw, gh, sp, ah, gpop, q, out, tk, dpush, dadd, apush, aadd, size, avail>>
ALeaveHanded == /\ ah > 0
                /\ (IF aw > 0 THEN aw' = aw - 1 /\ ah' = ah /\ sp' = sp ELSE sp' = sp + 1 /\ ah' = ah - 1 /\ aw' = aw)
                /\ UNCHANGED <<p, gw, gh, gpop, q, out, tk, dpush, dadd, apush, aadd, size, avail>>
APush == /\ apush > 0 /\ apush' = apush - 1 /\ size' = size + 1 /\ q' = q + 1 /\ avail' = avail + 1 /\ aadd' = aadd + 1
         /\ UNCHANGED <<p, gw, gh, sp, aw, ah, gpop, out, tk, dpush, dadd>>
AAdd == /\ aadd > 0 /\ aadd' = aadd - 1 /\ ReleaseG
        /\ UNCHANGED <<sp, aw, ah, gpop, q, out, tk, dpush, dadd, apush, size, avail>>

Next == \/ GAcquire \/ GEnqueue \/ GPoll \/ GLeaveQueue \/ GLeaveHanded \/ GPopGet \/ GPopRemove \/ GPopEmpty
        \/ StartTake \/ Take \/ StartReturn \/ DPush \/ DAdd
        \/ AAcquire \/ AEnqueue \/ APoll \/ ALeaveQueue \/ ALeaveHanded \/ APush \/ AAdd

NonNeg == /\ p >= 0 /\ gw >= 0 /\ gh >= 0 /\ sp >= 0 /\ aw >= 0 /\ ah >= 0 /\ gpop >= 0 /\ q >= 0 /\ out >= 0
          /\ tk >= 0 /\ dpush >= 0 /\ dadd >= 0 /\ apush >= 0 /\ aadd >= 0
IndInv ==
  /\ Max >= 0 /\ Pre >= 0 /\ Pre <= Max /\ NonNeg
  \* every queued object is backed by exactly one permit that is free, owned by a caller, or on its way
  /\ q = p + gh + gpop + dadd + aadd
  \* every slot is free, owned by an adder, or occupied by an object the pool counts
  /\ Max = sp + ah + apush + size
  /\ size = q + out + tk + dpush
  /\ avail = q - gw - gh - gpop
  /\ (gw > 0 => p = 0)
  /\ (aw > 0 => sp = 0)

\* --- the properties (each implied by IndInv) ----------------------------------------
\* C05: the pool (queue, callers' hands, returns and adds in flight) never holds more than max_size objects
C05max == q + out + tk + dpush + apush <= Max
\* a caller that obtained a permit always finds an object
NoEmptyPop == gpop > 0 => q > 0
\* a refused try_add (no size permit) means the pool is full, a blocked add too
Full == sp = 0 => size + ah + apush = Max
\* at rest status() is exact: size counts queued + checked-out objects; available / waiting are the
\* positive / negative part of `avail`
AtRest == gh + gpop + tk + dpush + dadd + ah + apush + aadd = 0
StatusAtRest == AtRest => /\ size = q + out
                          /\ (IF avail > 0 THEN avail ELSE 0) = q
                          /\ (IF avail < 0 THEN 0 - avail ELSE 0) = gw
NoUnderflow == size >= 0

IndInit ==
  /\ p \in Int /\ gw \in Int /\ gh \in Int /\ sp \in Int /\ aw \in Int /\ ah \in Int /\ gpop \in Int /\ q \in Int
  /\ out \in Int /\ tk \in Int /\ dpush \in Int /\ dadd \in Int /\ apush \in Int /\ aadd \in Int /\ size \in Int /\ avail \in Int
  /\ IndInv
=============================================================================
